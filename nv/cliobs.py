"""M-CLI: runs `python -m norminette ARGS` as a subprocess with the monitors
attached through sitecustomize, and parses what it printed (DESIGN §3.1)."""
import json
import os
import subprocess
import tempfile

from nv import oracle
from nv.run import ROOT, REPO, PY


class CliRun:
    __slots__ = ("argv", "rc", "stdout", "stderr", "trace", "timeout", "cwd")

    def traceback(self):
        return "Traceback (most recent call last)" in self.stderr

    def parsed(self, fmt="humanized"):
        if fmt == "json":
            return oracle.parse_json_report(self.stdout)[0]
        return oracle.parse_humanized(self.stdout)


def run_cli(args, cwd=None, timeout=120, trace=True, env_extra=None, stdin=None, tty=()):
    """tty: which of "stdin", "stdout", "stderr" are terminals (pseudo-terminals) instead of pipes"""
    if tty:
        return _run_cli_tty(args, cwd, timeout, env_extra, tty)
    env = dict(os.environ)
    env["PYTHONPATH"] = os.path.join(ROOT, "nv", "site") + ":" + REPO + ":" + ROOT
    env["PYTHONDONTWRITEBYTECODE"] = "1"
    env["PYTHONHASHSEED"] = "0"
    env["NV_REPO"] = REPO
    tf = None
    if trace:
        fd, tf = tempfile.mkstemp(prefix="nvtrace_", suffix=".json")
        os.close(fd)
        env["NORMINETTE_VERIF"] = "1"
        env["NV_TRACE"] = tf
    else:
        env.pop("NV_TRACE", None)
        env["NORMINETTE_VERIF"] = "1"
    if env_extra:
        env.update(env_extra)
    r = CliRun()
    r.argv = list(args)
    r.cwd = cwd
    r.trace = None
    r.timeout = False
    try:
        p = subprocess.run([PY, "-X", "dev", "-m", "norminette"] + list(args), cwd=cwd, env=env,
                           stdout=subprocess.PIPE, stderr=subprocess.PIPE, timeout=timeout, stdin=subprocess.DEVNULL)
        r.rc = p.returncode
        r.stdout = p.stdout.decode("utf-8", "replace")
        r.stderr = p.stderr.decode("utf-8", "replace")
    except subprocess.TimeoutExpired as e:
        r.rc = None
        r.timeout = True
        r.stdout = (e.stdout or b"").decode("utf-8", "replace")
        r.stderr = (e.stderr or b"").decode("utf-8", "replace")
    if tf:
        try:
            with open(tf) as f:
                txt = f.read()
            r.trace = json.loads(txt) if txt else None
            if r.trace and r.trace.get("monitor_errors"):
                from nv import mon
                for m in r.trace["monitor_errors"][:5]:
                    mon.note_blind("child", Exception(m))
        except (OSError, ValueError):
            r.trace = None
        try:
            os.unlink(tf)
        except OSError:
            pass
    return r


def _run_cli_tty(args, cwd, timeout, env_extra, tty):
    """the command line with some of its standard streams attached to pseudo-terminals; the streams that are not
    terminals are pipes as usual.  No child-side trace (the observation is the text and the exit status)."""
    import pty
    import threading
    env = dict(os.environ)
    env["PYTHONPATH"] = REPO + ":" + ROOT
    env["PYTHONDONTWRITEBYTECODE"] = "1"
    env["PYTHONHASHSEED"] = "0"
    env["TERM"] = "xterm"
    env.pop("NV_TRACE", None)
    env["NORMINETTE_VERIF"] = "1"
    if env_extra:
        env.update(env_extra)
    r = CliRun()
    r.argv = list(args)
    r.cwd = cwd
    r.trace = None
    r.timeout = False
    masters = {}
    fds = {}
    for name in ("stdin", "stdout", "stderr"):
        if name in tty:
            m, sl = pty.openpty()
            masters[name] = m
            fds[name] = sl
    chunks = {"stdout": [], "stderr": []}

    def drain(fd, key):
        while True:
            try:
                b = os.read(fd, 65536)
            except OSError:
                break
            if not b:
                break
            chunks[key].append(b)
    p = subprocess.Popen([PY, "-X", "dev", "-m", "norminette"] + list(args), cwd=cwd, env=env,
                         stdin=fds.get("stdin", subprocess.DEVNULL), stdout=fds.get("stdout", subprocess.PIPE),
                         stderr=fds.get("stderr", subprocess.PIPE), close_fds=True)
    threads = []
    for key in ("stdout", "stderr"):
        fd = masters.get(key)
        if fd is None:
            fd = (p.stdout if key == "stdout" else p.stderr).fileno()
        t = threading.Thread(target=drain, args=(fd, key), daemon=True)
        t.start()
        threads.append(t)
    try:
        r.rc = p.wait(timeout=timeout)
    except subprocess.TimeoutExpired:
        p.kill()
        p.wait()
        r.rc = None
        r.timeout = True
    for sl in fds.values():
        os.close(sl)
    for t in threads:
        t.join(5)
    for m in masters.values():
        try:
            os.close(m)
        except OSError:
            pass
    r.stdout = b"".join(chunks["stdout"]).decode("utf-8", "replace").replace("\r\n", "\n")
    r.stderr = b"".join(chunks["stderr"]).decode("utf-8", "replace").replace("\r\n", "\n")
    return r
