import argparse
import os
import sys


def main():
    ap = argparse.ArgumentParser()
    ap.add_argument("property")
    ap.add_argument("--tier", default=os.environ.get("VERIF_TIER", "quick"), choices=["quick", "thorough"])
    ap.add_argument("--replay")
    ap.add_argument("--seed", type=int, default=None)
    a = ap.parse_args()
    seed = a.seed if a.seed is not None else int(os.environ.get("VERIF_SEED", "0") or 0)
    from nv import core, run
    core.assert_repo()
    sys.exit(run.run_check(a.property.upper(), a.tier, seed, replay=a.replay))


if __name__ == "__main__":
    main()
