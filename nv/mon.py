"""Runtime monitors (DESIGN §3.1).  All of them wrap public class attributes of
the real code from the outside; nothing in /repo is edited.

A *session* (class Session) collects what the monitors observe during one
monitored execution.  `install()` patches the classes once per process;
events are delivered to the session in `CUR[0]` (None = monitors dormant).
"""
import sys
import traceback

from norminette.lexer.lexer import Lexer
from norminette.lexer import dictionary as _dict
from norminette.errors import Errors, Error
from norminette.registry import Registry
from norminette.context import Context
from norminette.norm_error import errors as CATALOGUE
from norminette.exceptions import CParsingError

from nv import oracle

CUR = [None]
_installed = [False]

# ------------------------------------------------------------------ spellings
# inverse table type -> canonical spelling for value-less tokens (checked for
# injectivity: two types never share a spelling except aliases of one type)
SPELL = {}
for _d in (_dict.keywords, _dict.operators, _dict.brackets):
    for _k, _v in _d.items():
        SPELL.setdefault(_v, _k)
SPELL.update({"SPACE": " ", "TAB": "\t", "NEWLINE": "\n"})


def token_text(t):
    if t.value is not None:
        return t.value
    return SPELL.get(t.type)


class MonitorBlind(Exception):
    """a monitor cannot observe what it needs (an attribute it relied on is gone): the run is inconclusive"""


MONITOR_ERRORS = []          # process-wide: reasons why a monitor could not observe (-> INCONCLUSIVE, never a violation)
_cursor_attr = {}


def note_blind(where, exc):
    msg = "%s: %s: %s" % (where, type(exc).__name__, str(exc)[:160])
    if msg not in MONITOR_ERRORS and len(MONITOR_ERRORS) < 20:
        MONITOR_ERRORS.append(msg)


def cursor(lx):
    """raw offset of the next unread character of a Lexer: through the in-tree hook when the tree has it (and
    NORMINETTE_VERIF is set), else the one integer attribute that is 0 on a fresh lexer"""
    f = getattr(lx, "_verif_cursor", None)
    if f is not None:
        try:
            return f()
        except AttributeError:
            pass                    # a stale hook (attribute renamed under it): fall back to the heuristic
    cls = type(lx)
    name = _cursor_attr.get(cls)
    if name is None:
        probe = cls.__new__(cls)
        try:
            import norminette.file
            cls.__init__(probe, norminette.file.File("probe.c", "x"))
        except Exception as e:
            raise MonitorBlind("cannot build a probe lexer: %r" % e)
        zero = [k for k, v in vars(probe).items() if type(v) is int and v == 0]
        if len(zero) != 1:
            raise MonitorBlind("no unique cursor attribute on Lexer (candidates %r)" % zero)
        name = _cursor_attr[cls] = zero[0]
    return getattr(lx, name)


def errors_list(errs):
    """the diagnostics of an Errors object in insertion order, without sorting them"""
    f = getattr(errs, "_verif_items", None)
    if f is not None:
        try:
            return f()
        except AttributeError:
            pass
    cands = []
    slots = getattr(type(errs), "__slots__", ()) or ()
    if isinstance(slots, str):
        slots = (slots,)
    for k in slots:
        if isinstance(k, str) and isinstance(getattr(errs, k, None), list):
            cands.append(getattr(errs, k))
    for v in getattr(errs, "__dict__", {}).values():
        if isinstance(v, list):
            cands.append(v)
    if len(cands) != 1:
        raise MonitorBlind("no unique list inside Errors")
    return cands[0]


class Session:
    """what one monitored execution produced"""

    def __init__(self, src=None, want_tokens=True):
        self.src = src
        self.tokens = []        # (type, value, pos, raw_start, raw_end)
        self.lex_fail = []      # assertion failures of M-LEX: (kind, detail...)
        self.lex_exc = None
        self.diags = []         # dict(code,text,level,hl=[(line,col,len,hint)],emitter,stmt)
        self.diag_fail = []     # assertion failures of M-DIAG
        self.stmts = []         # (rule, jump, popped, first_type, first_pos, last_type, scope_before, scope_after)
        self.unrec = []         # (type, pos)
        self.seg_fail = []
        self.checks_run = 0
        self.ended = None       # "normal" | "fatal" | "exception"
        self.tokens_total = None
        self.asserts = {}       # name -> evaluations
        self.want_tokens = want_tokens
        self.bad_events = []    # (line, col) of BAD_LEXEME events, in order
        self.bad_cursor = 0
        self.stmt_index = 0
        self.rule_stack = []

    def count(self, name, n=1):
        self.asserts[name] = self.asserts.get(name, 0) + n


# ------------------------------------------------------------------ M-LEX

def _lexer_state(lx):
    st = lx.__dict__.get("_nv")
    if st is None:
        st = lx.__dict__["_nv"] = {"depth": 0, "lp": [], "prev_end": 0, "done": False}
    return st


def _wrap_lexer():
    orig_next = Lexer.get_next_token
    orig_lp = Lexer.line_pos

    def line_pos(self):
        r = orig_lp(self)
        if CUR[0] is not None:
            try:
                st = _lexer_state(self)
                st["lp"].append((cursor(self), r))
            except Exception as e:         # the monitor must never disturb the tool
                note_blind("M-LEX.line_pos", e)
        return r

    def get_next_token(self):
        s = CUR[0]
        if s is None:
            return orig_next(self)
        outer = False
        st = None
        try:
            st = _lexer_state(self)
            outer = st["depth"] == 0
            if outer:
                st["lp"] = []
                st["entry"] = cursor(self)
            st["depth"] += 1
        except Exception as e:
            note_blind("M-LEX.enter", e)
            st = None
        try:
            t = orig_next(self)
        except BaseException as e:
            if st is not None:
                st["depth"] -= 1
                if outer and not isinstance(e, StepBudgetExceeded):
                    s.lex_exc = (type(e).__name__, _innermost(e))
            raise
        if st is not None:
            st["depth"] -= 1
            if outer:
                try:
                    _observe_token(s, self, st, t)
                except Exception as e:
                    note_blind("M-LEX.observe", e)
        return t

    Lexer.line_pos = line_pos
    Lexer.get_next_token = get_next_token


def _observe_token(s, lx, st, t):
    src = lx.file.source
    end = cursor(lx)
    if t is None:
        # end of input: everything after the last token must be splices/bad lexemes
        _check_gap(s, src, st["prev_end"], len(src), end_of_input=True)
        s.count("lex.end_reached")
        if end < len(src):
            s.lex_fail.append(("STOPPED_EARLY", end, len(src)))
        if s.bad_cursor != len(s.bad_events):
            s.lex_fail.append(("PHANTOM_BADLEX", s.bad_cursor, len(s.bad_events)))
        return
    start = None
    for cur, val in reversed(st["lp"]):
        if tuple(val) == tuple(t.pos):
            start = cur
            break
    if start is None and st["lp"]:
        start = st["lp"][-1][0]
    if start is None:
        s.lex_fail.append(("NOSTART", t.type, repr(t.value)))
        st["prev_end"] = end
        return
    # progress
    s.count("lex.progress")
    if not end > start:
        s.lex_fail.append(("NO_PROGRESS", t.type, start, end))
    # monotone, gap-free consumption
    s.count("lex.monotone")
    if start < st["prev_end"]:
        s.lex_fail.append(("OVERLAP", t.type, st["prev_end"], start))
    else:
        _check_gap(s, src, st["prev_end"], start)
    # a line end right after a backslash (or ??/) is half of a line splice: it never is a token of its own, and the
    # backslash never is a stray character
    # (a backslash that is itself escaped inside a literal is left out: the lexer pairs backslashes before it splices)
    if t.type == "NEWLINE" and src.startswith("\n", start):
        nb = 0
        e = start
        while True:
            if src.endswith("\\", 0, e):
                e -= 1
            elif src.endswith("??/", 0, e):
                e -= 3
            else:
                break
            nb += 1
        if nb % 2 == 1:
            s.count("lex.splice_not_a_token")
            s.lex_fail.append(("SPLICE_AS_NEWLINE", t.type, start, oracle.refpos(src, start)))
    # true position
    s.count("lex.position")
    ep = oracle.refpos(src, start)
    if tuple(t.pos) != ep:
        s.lex_fail.append(("POS", t.type, tuple(t.pos), ep, start))
    # text
    s.count("lex.text")
    raw = src[start:end]
    txt = token_text(t)
    if txt is None:
        s.lex_fail.append(("NOSPELL", t.type))
    else:
        _check_text(s, t, txt, raw, ep)
    if s.want_tokens:
        s.tokens.append((t.type, t.value, tuple(t.pos), start, end))
    st["prev_end"] = end


def _check_gap(s, src, a, b, end_of_input=False):
    """characters of src[a:b] were consumed outside any token: only splices
    and characters reported as BAD_LEXEME (in order, at their true position)
    may be there"""
    i = a
    while i < b:
        if src.startswith("\\\n", i) and i + 2 <= b:
            i += 2
            continue
        if src.startswith("??/\n", i) and i + 4 <= b:
            i += 4
            continue
        s.count("lex.bad_lexeme_reported")
        p = oracle.refpos(src, i)
        k = s.bad_cursor
        if k < len(s.bad_events):
            s.bad_cursor += 1
            got = s.bad_events[k]
            s.count("lex.bad_lexeme_position")
            if got != p:
                s.lex_fail.append(("BADLEX_POS", src[i], got, p, i))
        else:
            s.lex_fail.append(("DROPPED", src[i], i, p))
        i += 1


def _expand_comment(raw, startcol):
    """reference expansion of a block comment's raw text: splices removed,
    trigraphs/digraphs mapped, each tab replaced by spaces up to the next tab
    stop of its physical line"""
    out = []
    col = startcol
    i = 0
    n = len(raw)
    while i < n:
        if raw.startswith("\\\n", i):
            i += 2
            col = 1
            continue
        if raw.startswith("??/\n", i):
            i += 4
            col = 1
            continue
        tri = raw[i:i + 3]
        if tri in oracle.TRIGRAPHS:
            out.append(oracle.TRIGRAPHS[tri])
            i += 3
            col += 3
            continue
        di = raw[i:i + 2]
        if di in oracle.DIGRAPHS:
            out.append(oracle.DIGRAPHS[di])
            i += 2
            col += 2
            continue
        ch = raw[i]
        if ch == "\t":
            w = 4 - (col - 1) % 4
            out.append(" " * w)
            col += w
        elif ch == "\n":
            out.append(ch)
            col = 1
        else:
            out.append(ch)
            col += 1
        i += 1
    return "".join(out)


def _check_text(s, t, txt, raw, ep):
    norm = oracle.normalise(raw)
    if t.type == "MULT_COMMENT":
        if _expand_comment(raw, ep[1]) == txt:
            return
        # lenient form of the documented normalisation: a tab is some spaces
        if oracle.strip_ws(norm) == oracle.strip_ws(txt):
            s.count("lex.text_lenient")
            if "\\\n" in raw or "??/\n" in raw or any(
                    x in raw for x in list(oracle.TRIGRAPHS) + list(oracle.DIGRAPHS)):
                return
            s.lex_fail.append(("TABEXP", t.type, raw, txt))
            return
        s.lex_fail.append(("TEXT", t.type, norm, txt))
        return
    if t.value is None:
        # value-less token: its raw text must normalise to a spelling of that type
        if norm == txt:
            return
        for d in (_dict.keywords, _dict.operators, _dict.brackets):
            if d.get(norm) == t.type:
                return
        s.lex_fail.append(("TEXT", t.type, norm, txt))
        return
    if norm != txt and norm != oracle.normalise(txt):
        # both sides normalised: a splice the lexer legitimately kept inside a
        # literal (after an escaped backslash) is not a loss
        s.lex_fail.append(("TEXT", t.type, norm, txt))


# ------------------------------------------------------------------ M-DIAG

def _emitter():
    f = sys._getframe(2)
    rule = None
    inner = None
    while f is not None:
        fn = f.f_code.co_filename
        if "/norminette/" in fn and "/nv/" not in fn:
            name = f.f_code.co_name
            mod = fn.rsplit("/", 1)[-1][:-3]
            if inner is None and name not in ("add", "new_error", "new_warning", "append"):
                inner = mod + "." + name
            if "/rules/" in fn and rule is None:
                slf = f.f_locals.get("self")
                rule = type(slf).__name__ if slf is not None else mod
                break
        f = f.f_back
    return rule or inner or "?"


def _wrap_errors():
    orig_add = Errors.add

    def add(self, *args, **kwargs):
        s = CUR[0]
        before = None
        if s is not None:
            try:
                before = len(errors_list(self))
            except Exception as e:
                note_blind("M-DIAG.before", e)
        r = orig_add(self, *args, **kwargs)
        if s is not None and before is not None:
            try:
                items = errors_list(self)
                if len(items) == before + 1:
                    _observe_diag(s, items[-1])
            except Exception as e:
                note_blind("M-DIAG.observe", e)
        return r

    Errors.add = add


def _observe_diag(s, e):
    hl = [(h.lineno, h.column, h.length, h.hint) for h in e.highlights]
    em = _emitter()
    ev = {"code": e.name, "text": e.text, "level": e.level, "hl": hl, "emitter": em, "stmt": s.stmt_index}
    s.diags.append(ev)
    if e.name == "BAD_LEXEME" and hl:
        s.bad_events.append((hl[0][0], hl[0][1]))
    s.count("diag.catalogue")
    if e.name not in CATALOGUE:
        s.diag_fail.append(("NOT_IN_CATALOGUE", e.name, em))
    elif CATALOGUE[e.name] != e.text:
        s.diag_fail.append(("TEXT_DIFFERS", e.name, e.text, em))
    s.count("diag.level")
    if e.level not in ("Error", "Notice"):
        s.diag_fail.append(("LEVEL", e.name, e.level, em))
    s.count("diag.highlight")
    if not hl:
        s.diag_fail.append(("NO_HIGHLIGHT", e.name, em))
    elif s.src is not None:
        s.count("diag.position_range")
        n = oracle.nlines(s.src)
        line, col = hl[0][0], hl[0][1]
        if not (isinstance(line, int) and isinstance(col, int) and 1 <= line <= n and col >= 1):
            s.diag_fail.append(("POSITION_RANGE", e.name, line, col, n, em))


# ------------------------------------------------------------------ M-SEG

def _wrap_registry():
    orig_run = Registry.run
    orig_rr = Registry.run_rules
    orig_pop = Context.pop_tokens

    def run(self, context):
        s = CUR[0]
        if s is None:
            return orig_run(self, context)
        st = None
        try:
            st = context.__dict__.setdefault("_nv", {})
            st.update({"depth": 0, "pending": None, "popped": 0, "in_run": True,
                       "total": len(context.tokens), "tried": 0})
            s.tokens_total = len(context.tokens)
        except Exception as e:
            note_blind("M-SEG.run.enter", e)
            st = None
        try:
            r = orig_run(self, context)
        except CParsingError:
            s.ended = "fatal"
            if st is not None:
                st["in_run"] = False
            raise
        except BaseException:
            s.ended = "exception"
            if st is not None:
                st["in_run"] = False
            raise
        s.ended = "normal"
        if st is not None:
            st["in_run"] = False
            try:
                s.count("seg.tiling")
                if st["popped"] != st["total"] or context.tokens:
                    s.seg_fail.append(("TILING", st["popped"], st["total"], len(context.tokens)))
                s.count("seg.unrecognised_implies_fatal")
                if s.unrec and context.debug == 0:
                    s.seg_fail.append(("UNRECOGNISED_NOT_FATAL", s.unrec[0]))
            except Exception as e:
                note_blind("M-SEG.run.exit", e)
        return r

    def run_rules(self, context, rule):
        s = CUR[0]
        st = context.__dict__.get("_nv") if hasattr(context, "__dict__") else None
        if s is None or st is None or not st.get("in_run"):
            return orig_rr(self, context, rule)
        top = False
        pre = None
        try:
            top = st["depth"] == 0 and context.state == "running"
            st["depth"] += 1
            if not top:
                s.checks_run += 1
            else:
                pre = (_scope_sig(context), len(context.tokens), context.tokens[0] if context.tokens else None)
        except Exception as e:
            note_blind("M-SEG.run_rules.enter", e)
            top = False
        try:
            res = orig_rr(self, context, rule)
        finally:
            try:
                st["depth"] -= 1
            except Exception:
                pass
        if top and pre is not None:
            try:
                ret, read = res
                st["tried"] += 1
                if ret is True:
                    s.count("seg.jump_positive")
                    if not (isinstance(read, int) and read >= 1):
                        s.seg_fail.append(("JUMP_NOT_POSITIVE", getattr(rule, "__name__", str(rule)), read))
                    st["pending"] = (getattr(rule, "__name__", str(rule)), read, pre[1], pre[2], pre[0])
            except Exception as e:
                note_blind("M-SEG.run_rules.exit", e)
        return res

    def pop_tokens(self, stop):
        s = CUR[0]
        st = self.__dict__.get("_nv") if hasattr(self, "__dict__") else None
        if s is None or st is None or not st.get("in_run"):
            return orig_pop(self, stop)
        before = toks = None
        try:
            before = len(self.tokens)
            toks = self.tokens
        except Exception as e:
            note_blind("M-SEG.pop.enter", e)
        r = orig_pop(self, stop)
        if before is None:
            return r
        try:
            popped = before - len(self.tokens)
            st["popped"] += popped
            pend = st["pending"]
            if pend is not None:
                name, read, ntok, first, sb = pend
                st["pending"] = None
                s.count("seg.pop_equals_jump")
                if stop != read:
                    s.seg_fail.append(("POP_NE_JUMP", name, read, stop))
                over = read > before
                last = toks[min(read, before) - 1] if before and read >= 1 else None
                s.stmts.append((name, read, popped, first.type if first else None,
                                tuple(first.pos) if first else None,
                                last.type if last else None, sb, _scope_sig(self), over))
                s.stmt_index += 1
            else:
                # nothing matched since the last pop: the registry drops what it could not recognise
                for t in toks[:max(popped, 1)]:
                    s.unrec.append((t.type, tuple(t.pos)))
                s.count("seg.unrecognised_pop_progress")
                if before and popped < 1:
                    s.seg_fail.append(("UNRECOGNISED_POP_NO_PROGRESS", stop))
        except Exception as e:
            note_blind("M-SEG.pop.exit", e)
        return r

    Registry.run = run
    Registry.run_rules = run_rules
    Context.pop_tokens = pop_tokens


def _scope_sig(context):
    sc = context.scope
    names = []
    while sc is not None:
        names.append(type(sc).__name__)
        sc = getattr(sc, "parent", None)
    return (names[0] if names else None, len(names) - 1)


# ------------------------------------------------------------------ M-STEP

class StepBudgetExceeded(BaseException):
    pass


class StepClock:
    """logical clock: function entries + backward jumps inside norminette/*"""

    def __init__(self):
        self.steps = 0
        self.budget = 0
        self.active = False
        self.mon = sys.monitoring
        self.tool = self.mon.PROFILER_ID
        self.ok = False

    def setup(self):
        if self.ok:
            return
        mon = self.mon
        mon.use_tool_id(self.tool, "nv-step")
        mon.register_callback(self.tool, mon.events.PY_START, self._on_start)
        mon.register_callback(self.tool, mon.events.JUMP, self._on_jump)
        self.ok = True

    def _on_start(self, code, off):
        if "/norminette/" not in code.co_filename:
            return self.mon.DISABLE
        self.steps += 1
        if self.steps > self.budget:
            self.budget = 1 << 62   # raise once
            raise StepBudgetExceeded()

    def _on_jump(self, code, src_off, dst_off):
        if "/norminette/" not in code.co_filename:
            return self.mon.DISABLE
        if dst_off > src_off:
            return None
        self.steps += 1
        if self.steps > self.budget:
            self.budget = 1 << 62
            raise StepBudgetExceeded()

    def start(self, budget):
        self.setup()
        self.steps = 0
        self.budget = budget
        ev = self.mon.events
        self.mon.set_events(self.tool, ev.PY_START | ev.JUMP)
        self.active = True

    def stop(self):
        if self.active:
            self.mon.set_events(self.tool, 0)
            self.active = False
        return self.steps


CLOCK = StepClock()


def budget1(n):
    return 100_000 + 1_500 * n


def budget_full(n):
    return 2_000_000 + 15_000 * n


# ------------------------------------------------------------------ helpers

def _innermost(exc):
    tb = traceback.extract_tb(exc.__traceback__)
    fr = [x for x in tb if "/norminette/" in x.filename and "/nv/" not in x.filename]
    if not fr:
        return ("?", "?")
    last = fr[-1]
    rf = [x for x in fr if "/rules/" in x.filename]
    return (last.filename.rsplit("/", 1)[-1] + ":" + last.name,
            (rf[-1].filename.rsplit("/", 1)[-1] + ":" + rf[-1].name) if rf else "-")


def signature(exc):
    """(class, innermost norminette function, innermost rule function)"""
    a, b = _innermost(exc)
    return (type(exc).__name__, a, b)


def install():
    if _installed[0]:
        return
    import norminette
    _installed[0] = True
    _wrap_lexer()
    _wrap_errors()
    _wrap_registry()
