"""Runtime monitors (DESIGN §3.1).  All of them wrap public class attributes of
the real code from the outside; nothing in /repo is edited.

A *session* (class Session) collects what the monitors observe during one
monitored execution.  `install()` patches the classes once per process;
events are delivered to the session in `CUR[0]` (None = monitors dormant).
"""
import sys
import traceback

from norminette.lexer.lexer import Lexer
from norminette.lexer import dictionary as _dict
from norminette.errors import Errors, Error
from norminette.registry import Registry
from norminette.context import Context
from norminette.norm_error import errors as CATALOGUE
from norminette.exceptions import CParsingError

from nv import oracle

CUR = [None]
_installed = [False]

# ------------------------------------------------------------------ spellings
# inverse table type -> canonical spelling for value-less tokens (checked for
# injectivity: two types never share a spelling except aliases of one type)
SPELL = {}
for _d in (_dict.keywords, _dict.operators, _dict.brackets):
    for _k, _v in _d.items():
        SPELL.setdefault(_v, _k)
SPELL.update({"SPACE": " ", "TAB": "\t", "NEWLINE": "\n"})


def token_text(t):
    if t.value is not None:
        return t.value
    return SPELL.get(t.type)


class Session:
    """what one monitored execution produced"""

    def __init__(self, src=None, want_tokens=True):
        self.src = src
        self.tokens = []        # (type, value, pos, raw_start, raw_end)
        self.lex_fail = []      # assertion failures of M-LEX: (kind, detail...)
        self.lex_exc = None
        self.diags = []         # dict(code,text,level,hl=[(line,col,len,hint)],emitter,stmt)
        self.diag_fail = []     # assertion failures of M-DIAG
        self.stmts = []         # (rule, jump, popped, first_type, first_pos, last_type, scope_before, scope_after)
        self.unrec = []         # (type, pos)
        self.seg_fail = []
        self.checks_run = 0
        self.ended = None       # "normal" | "fatal" | "exception"
        self.tokens_total = None
        self.asserts = {}       # name -> evaluations
        self.want_tokens = want_tokens
        self.bad_events = []    # (line, col) of BAD_LEXEME events, in order
        self.bad_cursor = 0
        self.stmt_index = 0
        self.rule_stack = []

    def count(self, name, n=1):
        self.asserts[name] = self.asserts.get(name, 0) + n


# ------------------------------------------------------------------ M-LEX

def _lexer_state(lx):
    st = lx.__dict__.get("_nv")
    if st is None:
        st = lx.__dict__["_nv"] = {"depth": 0, "lp": [], "prev_end": 0, "done": False}
    return st


def _wrap_lexer():
    orig_next = Lexer.get_next_token
    orig_lp = Lexer.line_pos

    def line_pos(self):
        r = orig_lp(self)
        if CUR[0] is not None:
            st = _lexer_state(self)
            st["lp"].append((self._Lexer__pos, r))
        return r

    def get_next_token(self):
        s = CUR[0]
        if s is None:
            return orig_next(self)
        st = _lexer_state(self)
        outer = st["depth"] == 0
        if outer:
            st["lp"] = []
            st["entry"] = self._Lexer__pos
        st["depth"] += 1
        try:
            t = orig_next(self)
        except BaseException as e:
            st["depth"] -= 1
            if outer and not isinstance(e, StepBudgetExceeded):
                s.lex_exc = (type(e).__name__, _innermost(e))
            raise
        st["depth"] -= 1
        if outer:
            _observe_token(s, self, st, t)
        return t

    Lexer.line_pos = line_pos
    Lexer.get_next_token = get_next_token


def _observe_token(s, lx, st, t):
    src = lx.file.source
    end = lx._Lexer__pos
    if t is None:
        # end of input: everything after the last token must be splices/bad lexemes
        _check_gap(s, src, st["prev_end"], len(src), end_of_input=True)
        s.count("lex.end_reached")
        if end < len(src):
            s.lex_fail.append(("STOPPED_EARLY", end, len(src)))
        if s.bad_cursor != len(s.bad_events):
            s.lex_fail.append(("PHANTOM_BADLEX", s.bad_cursor, len(s.bad_events)))
        return
    start = None
    for cur, val in reversed(st["lp"]):
        if tuple(val) == tuple(t.pos):
            start = cur
            break
    if start is None and st["lp"]:
        start = st["lp"][-1][0]
    if start is None:
        s.lex_fail.append(("NOSTART", t.type, repr(t.value)))
        st["prev_end"] = end
        return
    # progress
    s.count("lex.progress")
    if not end > start:
        s.lex_fail.append(("NO_PROGRESS", t.type, start, end))
    # monotone, gap-free consumption
    s.count("lex.monotone")
    if start < st["prev_end"]:
        s.lex_fail.append(("OVERLAP", t.type, st["prev_end"], start))
    else:
        _check_gap(s, src, st["prev_end"], start)
    # true position
    s.count("lex.position")
    ep = oracle.refpos(src, start)
    if tuple(t.pos) != ep:
        s.lex_fail.append(("POS", t.type, tuple(t.pos), ep, start))
    # text
    s.count("lex.text")
    raw = src[start:end]
    txt = token_text(t)
    if txt is None:
        s.lex_fail.append(("NOSPELL", t.type))
    else:
        _check_text(s, t, txt, raw, ep)
    if s.want_tokens:
        s.tokens.append((t.type, t.value, tuple(t.pos), start, end))
    st["prev_end"] = end


def _check_gap(s, src, a, b, end_of_input=False):
    """characters of src[a:b] were consumed outside any token: only splices
    and characters reported as BAD_LEXEME (in order, at their true position)
    may be there"""
    i = a
    while i < b:
        if src.startswith("\\\n", i) and i + 2 <= b:
            i += 2
            continue
        if src.startswith("??/\n", i) and i + 4 <= b:
            i += 4
            continue
        s.count("lex.bad_lexeme_reported")
        p = oracle.refpos(src, i)
        k = s.bad_cursor
        if k < len(s.bad_events):
            s.bad_cursor += 1
            got = s.bad_events[k]
            s.count("lex.bad_lexeme_position")
            if got != p:
                s.lex_fail.append(("BADLEX_POS", src[i], got, p, i))
        else:
            s.lex_fail.append(("DROPPED", src[i], i, p))
        i += 1


def _expand_comment(raw, startcol):
    """reference expansion of a block comment's raw text: splices removed,
    trigraphs/digraphs mapped, each tab replaced by spaces up to the next tab
    stop of its physical line"""
    out = []
    col = startcol
    i = 0
    n = len(raw)
    while i < n:
        if raw.startswith("\\\n", i):
            i += 2
            col = 1
            continue
        if raw.startswith("??/\n", i):
            i += 4
            col = 1
            continue
        tri = raw[i:i + 3]
        if tri in oracle.TRIGRAPHS:
            out.append(oracle.TRIGRAPHS[tri])
            i += 3
            col += 3
            continue
        di = raw[i:i + 2]
        if di in oracle.DIGRAPHS:
            out.append(oracle.DIGRAPHS[di])
            i += 2
            col += 2
            continue
        ch = raw[i]
        if ch == "\t":
            w = 4 - (col - 1) % 4
            out.append(" " * w)
            col += w
        elif ch == "\n":
            out.append(ch)
            col = 1
        else:
            out.append(ch)
            col += 1
        i += 1
    return "".join(out)


def _check_text(s, t, txt, raw, ep):
    norm = oracle.normalise(raw)
    if t.type == "MULT_COMMENT":
        if _expand_comment(raw, ep[1]) == txt:
            return
        # lenient form of the documented normalisation: a tab is some spaces
        if oracle.strip_ws(norm) == oracle.strip_ws(txt):
            s.count("lex.text_lenient")
            if "\\\n" in raw or "??/\n" in raw or any(
                    x in raw for x in list(oracle.TRIGRAPHS) + list(oracle.DIGRAPHS)):
                return
            s.lex_fail.append(("TABEXP", t.type, raw, txt))
            return
        s.lex_fail.append(("TEXT", t.type, norm, txt))
        return
    if t.value is None:
        # value-less token: its raw text must normalise to a spelling of that type
        if norm == txt:
            return
        for d in (_dict.keywords, _dict.operators, _dict.brackets):
            if d.get(norm) == t.type:
                return
        s.lex_fail.append(("TEXT", t.type, norm, txt))
        return
    if norm != txt and norm != oracle.normalise(txt):
        # both sides normalised: a splice the lexer legitimately kept inside a
        # literal (after an escaped backslash) is not a loss
        s.lex_fail.append(("TEXT", t.type, norm, txt))


# ------------------------------------------------------------------ M-DIAG

def _emitter():
    f = sys._getframe(2)
    rule = None
    inner = None
    while f is not None:
        fn = f.f_code.co_filename
        if "/norminette/" in fn and "/nv/" not in fn:
            name = f.f_code.co_name
            mod = fn.rsplit("/", 1)[-1][:-3]
            if inner is None and name not in ("add", "new_error", "new_warning", "append"):
                inner = mod + "." + name
            if "/rules/" in fn and rule is None:
                slf = f.f_locals.get("self")
                rule = type(slf).__name__ if slf is not None else mod
                break
        f = f.f_back
    return rule or inner or "?"


def _wrap_errors():
    orig_add = Errors.add

    def add(self, *args, **kwargs):
        before = len(self._inner)
        r = orig_add(self, *args, **kwargs)
        s = CUR[0]
        if s is not None and len(self._inner) == before + 1:
            _observe_diag(s, self._inner[-1])
        return r

    Errors.add = add


def _observe_diag(s, e):
    hl = [(h.lineno, h.column, h.length, h.hint) for h in e.highlights]
    em = _emitter()
    ev = {"code": e.name, "text": e.text, "level": e.level, "hl": hl, "emitter": em, "stmt": s.stmt_index}
    s.diags.append(ev)
    if e.name == "BAD_LEXEME" and hl:
        s.bad_events.append((hl[0][0], hl[0][1]))
    s.count("diag.catalogue")
    if e.name not in CATALOGUE:
        s.diag_fail.append(("NOT_IN_CATALOGUE", e.name, em))
    elif CATALOGUE[e.name] != e.text:
        s.diag_fail.append(("TEXT_DIFFERS", e.name, e.text, em))
    s.count("diag.level")
    if e.level not in ("Error", "Notice"):
        s.diag_fail.append(("LEVEL", e.name, e.level, em))
    s.count("diag.highlight")
    if not hl:
        s.diag_fail.append(("NO_HIGHLIGHT", e.name, em))
    elif s.src is not None:
        s.count("diag.position_range")
        n = oracle.nlines(s.src)
        line, col = hl[0][0], hl[0][1]
        if not (isinstance(line, int) and isinstance(col, int) and 1 <= line <= n and col >= 1):
            s.diag_fail.append(("POSITION_RANGE", e.name, line, col, n, em))


# ------------------------------------------------------------------ M-SEG

def _wrap_registry():
    orig_run = Registry.run
    orig_rr = Registry.run_rules
    orig_pop = Context.pop_tokens

    def run(self, context):
        s = CUR[0]
        if s is None:
            return orig_run(self, context)
        st = context.__dict__.setdefault("_nv", {})
        st.update({"depth": 0, "pending": None, "popped": 0, "in_run": True,
                   "total": len(context.tokens), "tried": 0})
        s.tokens_total = len(context.tokens)
        try:
            r = orig_run(self, context)
        except CParsingError:
            s.ended = "fatal"
            st["in_run"] = False
            raise
        except BaseException:
            s.ended = "exception"
            st["in_run"] = False
            raise
        st["in_run"] = False
        s.ended = "normal"
        s.count("seg.tiling")
        if st["popped"] != st["total"] or context.tokens:
            s.seg_fail.append(("TILING", st["popped"], st["total"], len(context.tokens)))
        s.count("seg.unrecognised_implies_fatal")
        if s.unrec and context.debug == 0:
            s.seg_fail.append(("UNRECOGNISED_NOT_FATAL", s.unrec[0]))
        return r

    def run_rules(self, context, rule):
        s = CUR[0]
        st = context.__dict__.get("_nv")
        if s is None or st is None or not st.get("in_run"):
            return orig_rr(self, context, rule)
        top = st["depth"] == 0 and context.state == "running"
        st["depth"] += 1
        if not top:
            s.checks_run += 1
        try:
            if top:
                sb = _scope_sig(context)
                ntok = len(context.tokens)
                first = context.tokens[0] if context.tokens else None
            ret, read = orig_rr(self, context, rule)
        finally:
            st["depth"] -= 1
        if top:
            st["tried"] += 1
            if ret is True:
                s.count("seg.jump_positive")
                if not (isinstance(read, int) and read >= 1):
                    s.seg_fail.append(("JUMP_NOT_POSITIVE", rule.__name__, read))
                st["pending"] = (rule.__name__, read, ntok, first, sb)
        return ret, read

    def pop_tokens(self, stop):
        s = CUR[0]
        st = self.__dict__.get("_nv")
        if s is None or st is None or not st.get("in_run"):
            return orig_pop(self, stop)
        before = len(self.tokens)
        toks = self.tokens
        r = orig_pop(self, stop)
        popped = before - len(self.tokens)
        st["popped"] += popped
        pend = st["pending"]
        if pend is not None:
            name, read, ntok, first, sb = pend
            st["pending"] = None
            s.count("seg.pop_equals_jump")
            if stop != read:
                s.seg_fail.append(("POP_NE_JUMP", name, read, stop))
            over = read > before
            last = toks[min(read, before) - 1] if before and read >= 1 else None
            s.stmts.append((name, read, popped, first.type if first else None,
                            tuple(first.pos) if first else None,
                            last.type if last else None, sb, _scope_sig(self), over))
            s.stmt_index += 1
        else:
            # nothing matched since the last pop: the registry drops what it could not recognise
            for t in toks[:max(popped, 1)]:
                s.unrec.append((t.type, tuple(t.pos)))
            s.count("seg.unrecognised_pop_progress")
            if before and popped < 1:
                s.seg_fail.append(("UNRECOGNISED_POP_NO_PROGRESS", stop))
        return r

    Registry.run = run
    Registry.run_rules = run_rules
    Context.pop_tokens = pop_tokens


def _scope_sig(context):
    sc = context.scope
    names = []
    while sc is not None:
        names.append(type(sc).__name__)
        sc = getattr(sc, "parent", None)
    return (names[0] if names else None, len(names) - 1)


# ------------------------------------------------------------------ M-STEP

class StepBudgetExceeded(BaseException):
    pass


class StepClock:
    """logical clock: function entries + backward jumps inside norminette/*"""

    def __init__(self):
        self.steps = 0
        self.budget = 0
        self.active = False
        self.mon = sys.monitoring
        self.tool = self.mon.PROFILER_ID
        self.ok = False

    def setup(self):
        if self.ok:
            return
        mon = self.mon
        mon.use_tool_id(self.tool, "nv-step")
        mon.register_callback(self.tool, mon.events.PY_START, self._on_start)
        mon.register_callback(self.tool, mon.events.JUMP, self._on_jump)
        self.ok = True

    def _on_start(self, code, off):
        if "/norminette/" not in code.co_filename:
            return self.mon.DISABLE
        self.steps += 1
        if self.steps > self.budget:
            self.budget = 1 << 62   # raise once
            raise StepBudgetExceeded()

    def _on_jump(self, code, src_off, dst_off):
        if "/norminette/" not in code.co_filename:
            return self.mon.DISABLE
        if dst_off > src_off:
            return None
        self.steps += 1
        if self.steps > self.budget:
            self.budget = 1 << 62
            raise StepBudgetExceeded()

    def start(self, budget):
        self.setup()
        self.steps = 0
        self.budget = budget
        ev = self.mon.events
        self.mon.set_events(self.tool, ev.PY_START | ev.JUMP)
        self.active = True

    def stop(self):
        if self.active:
            self.mon.set_events(self.tool, 0)
            self.active = False
        return self.steps


CLOCK = StepClock()


def budget1(n):
    return 100_000 + 1_500 * n


def budget_full(n):
    return 2_000_000 + 15_000 * n


# ------------------------------------------------------------------ helpers

def _innermost(exc):
    tb = traceback.extract_tb(exc.__traceback__)
    fr = [x for x in tb if "/norminette/" in x.filename and "/nv/" not in x.filename]
    if not fr:
        return ("?", "?")
    last = fr[-1]
    rf = [x for x in fr if "/rules/" in x.filename]
    return (last.filename.rsplit("/", 1)[-1] + ":" + last.name,
            (rf[-1].filename.rsplit("/", 1)[-1] + ":" + rf[-1].name) if rf else "-")


def signature(exc):
    """(class, innermost norminette function, innermost rule function)"""
    a, b = _innermost(exc)
    return (type(exc).__name__, a, b)


def install():
    if _installed[0]:
        return
    import norminette
    _installed[0] = True
    _wrap_lexer()
    _wrap_errors()
    _wrap_registry()
