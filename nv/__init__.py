"""nv: runtime-monitoring machinery for norminette (see /verif/DESIGN.md)."""
