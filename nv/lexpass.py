"""One pass of M-LEX over a lexical workload; shared by C05 (totality), C09
(positions) and C10 (losslessness)."""
import random

from nv import core, mon
from nv.gen import lex as glex
from nv.run import Shard

ALPHAS = {"pos": glex.ALPHA_POS, "total": glex.ALPHA_TOTAL}


def strings_for(spec):
    mode = spec["mode"]
    if mode == "product":
        yield from glex.products(ALPHAS[spec["alpha"]], spec["maxlen"], spec["shard"], spec["nshards"],
                                 spec.get("minlen", 0))
    elif mode == "product_sample":
        alpha = ALPHAS[spec["alpha"]]
        r = random.Random("%s/%s/%d" % (spec["seed"], spec["alpha"], spec["shard"]))
        for _ in range(spec["n"]):
            L = spec["len"]
            yield "".join(r.choice(alpha) for _ in range(L))
    elif mode == "soup":
        r = random.Random("%s/soup/%d" % (spec["seed"], spec["shard"]))
        for _ in range(spec["n"]):
            yield glex.soup(r)
    elif mode == "runs":
        for i, s in enumerate(glex.long_runs()):
            if i % spec["nshards"] == spec["shard"]:
                yield s
    elif mode == "grammar":
        yield from glex.grammar(spec["maxlen"], spec["shard"], spec["nshards"])
        r = random.Random("%s/grammar/%d" % (spec.get("seed"), spec["shard"]))
        yield from glex.grammar_sample(r, spec.get("sample", 0), spec["maxlen"] + 1)
        yield from glex.grammar_sample(r, spec.get("sample", 0) // 2, spec["maxlen"] + 3)
    elif mode == "list":
        yield from spec["items"]
    else:
        raise ValueError(mode)


def lex_session(src, clock=False, budget=None):
    return core.api_run("t.c", src, lex_only=True, clock=clock, budget=budget, want_tokens=False)


def run_pass(spec, kinds, exc_is_violation=False, clock=False, nontrivial=None):
    sh = Shard()
    for src in strings_for(spec):
        r = lex_session(src, clock=clock)
        s = r.sess
        ntok = s.asserts.get("lex.progress", 0)
        sh.case(src, nontrivial=(nontrivial(s, src) if nontrivial else ntok >= 1))
        sh.add_asserts({k: v for k, v in s.asserts.items() if k.startswith("lex.")})
        sh.tally("outcomes", r.outcome)
        if r.outcome != "ok":
            sh.tally("lexer_exceptions", "%s" % (r.detail,))
            if exc_is_violation:
                if r.outcome == "hang":
                    r2 = lex_session(src, clock=True, budget=mon.budget_full(len(src)))
                    if r2.outcome != "hang":
                        continue
                    sh.violation("lexer_hang", r2.detail, {"src": src, "mode": "lex"}, {"outcome": "hang", "where": r2.detail})
                else:
                    d = r.detail
                    sh.violation("lexer_exception", d, {"src": src, "mode": "lex"},
                                 {"exc": d[0], "where": d[1], "len": len(src), "max_splice_run": max_splice_run(src),
                                  "max_open_quote_run": max_open_quote_run(src)})
        for fl in s.lex_fail:
            if fl[0] in kinds:
                sh.violation(fl[0], fl[1:2], {"src": src, "mode": "lex"}, {"fail": fl, "spliced_inside": _spliced_inside(src, fl)})
        if ntok >= 3:
            sh.sample({"src": src, "tokens": ntok})
    return sh


def _spliced_inside(src, fl):
    return ("\\\n" in src) or ("??/\n" in src)


def max_splice_run(src):
    """longest run of consecutive line splices"""
    best = run = 0
    i = 0
    n = len(src)
    while i < n:
        if src.startswith("\\\n", i):
            run += 1
            i += 2
        elif src.startswith("??/\n", i):
            run += 1
            i += 4
        else:
            run = 0
            i += 1
        best = max(best, run)
    return best


def max_open_quote_run(src):
    """largest number of characters the lexer has to read after a single quote before it meets the closing
    quote or an unescaped newline (line splices do not end a character literal, an escape counts once)"""
    from nv.oracle import normalise
    t = normalise(src)
    best = 0
    i = t.find("'")
    n = len(t)
    while i != -1:
        j = i + 1
        count = 0
        while j < n and t[j] != "'" and t[j] != "\n":
            if t[j] == "\\" and j + 1 < n and t[j + 1] != "\n":
                j += 2
            else:
                j += 1
            count += 1
        best = max(best, count)
        i = t.find("'", j + 1) if j < n else -1
    return best
