"""runs norminette with the listing of its rules directory permuted (python -m nv.permrun SEED < json)"""
import json
import os
import random
import sys


def main():
    seed = sys.argv[1]
    req = json.load(sys.stdin)
    real_listdir = os.listdir
    rnd = random.Random(seed)

    def listdir(path="."):
        res = real_listdir(path)
        if str(path).rstrip("/").endswith(os.path.join("norminette", "rules")):
            res = sorted(res)
            if seed != "sorted":
                rnd.shuffle(res)
        return res

    os.listdir = listdir
    from nv import core
    core.assert_repo()
    from norminette.registry import rules
    reg = core.registry()
    out = {"primaries": [r.__name__ for r in rules.primaries],
           "dependencies": {k: [c.__name__ for c in v] for k, v in sorted(reg.dependencies.items())},
           "obs": []}
    from nv.obsone import _obs
    for name, src in req["files"]:
        r = core.api_run(name, src, clock=False)
        out["obs"].append(_obs(r))
    json.dump(out, sys.stdout)


if __name__ == "__main__":
    main()
