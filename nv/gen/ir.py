"""IR of generated programs (DESIGN §3.2): a file is a list of Line, a line a
list of segments (text, class).  Rendering gives the text; the classes tell
mutation operators where their sites are without asking norminette's lexer.

Invariant kept by every generator and operator: a segment boundary is always
a C token boundary (a segment may hold several tokens, e.g. the type
"unsigned int", but a token never spans two segments).
"""
from nv.oracle import vis_width

SP = (" ", "ws:sp")


def TAB(n=1):
    return ("\t" * n, "ws:tab")


def IND(n):
    return ("\t" * n, "ws:indent")


class Line:
    __slots__ = ("kind", "depth", "func", "segs", "meta")

    def __init__(self, kind, segs=(), depth=0, func=-1, **meta):
        self.kind = kind
        self.depth = depth
        self.func = func
        self.segs = list(segs)
        self.meta = meta

    def text(self):
        return "".join(t for t, _ in self.segs)

    def width(self):
        return vis_width(self.text())

    def width_max(self):
        return max(vis_width(x) for x in self.text().split("\n"))

    def copy(self):
        l = Line(self.kind, list(self.segs), self.depth, self.func)
        l.meta = dict(self.meta)
        return l

    def __repr__(self):
        return "<%s d%d f%d %r>" % (self.kind, self.depth, self.func, self.text())


class Prog:
    __slots__ = ("name", "lines", "meta", "final_nl")

    def __init__(self, name, lines=None, **meta):
        self.name = name
        self.lines = lines or []
        self.meta = meta
        self.final_nl = True

    @property
    def ftype(self):
        return self.name.rsplit(".", 1)[-1]

    def text(self):
        s = "\n".join(l.text() for l in self.lines)
        return s + ("\n" if self.final_nl else "")

    def copy(self):
        p = Prog(self.name, [l.copy() for l in self.lines])
        p.meta = dict(self.meta)
        p.final_nl = self.final_nl
        return p

    def to_json(self):
        return {"name": self.name, "final_nl": self.final_nl,
                "lines": [[l.kind, l.depth, l.func, [list(x) for x in l.segs]] for l in self.lines]}

    @classmethod
    def from_json(cls, d):
        p = cls(d["name"], [Line(k, [tuple(x) for x in segs], depth, func) for k, depth, func, segs in d["lines"]])
        p.final_nl = d.get("final_nl", True)
        return p

    def nphys(self):
        """number of physical lines (a Line may hold embedded newlines)"""
        return sum(l.text().count("\n") + 1 for l in self.lines)

    def lineno(self, idx):
        """1-based physical line number of the first physical line of lines[idx]"""
        return 1 + sum(l.text().count("\n") + 1 for l in self.lines[:idx])

    def index_of_lineno(self, lineno):
        n = 1
        for i, l in enumerate(self.lines):
            k = l.text().count("\n") + 1
            if n <= lineno < n + k:
                return i
            n += k
        return None

    def seg_at(self, lineno, col):
        """(line index, seg index) of the segment covering visual column col of
        physical line lineno, or None"""
        i = self.index_of_lineno(lineno)
        if i is None:
            return None
        l = self.lines[i]
        c = 0
        for j, (t, _) in enumerate(l.segs):
            if "\n" in t:
                return (i, j)
            w = vis_width(t, c)
            if c < col <= w:
                return (i, j)
            c = w
        return (i, None)

    def context_at(self, lineno, col):
        """structure around a highlighted position, for finding predicates"""
        at = self.seg_at(lineno, col)
        if at is None:
            return {"line_kind": None}
        i, j = at
        l = self.lines[i]
        d = {"line_kind": l.kind, "depth": l.depth}
        if j is None:
            return d

        def nb(k, step):
            k += step
            while 0 <= k < len(l.segs) and l.segs[k][1].startswith("ws"):
                k += step
            return l.segs[k] if 0 <= k < len(l.segs) else ("", "edge")
        t, c = l.segs[j]
        p, n = nb(j, -1), nb(j, 1)
        d.update({"seg": _short(t, c), "cls": c, "prev": _short(*p), "prev_cls": p[1], "next": _short(*n),
                  "next_cls": n[1], "segs": [list(x) for x in l.segs], "seg_index": j})
        if p[1] != "edge":
            k = l.segs.index(p, 0, j) if p in l.segs[:j] else None
            # nearest occurrence to the left of j
            for q in range(j - 1, -1, -1):
                if l.segs[q] == p:
                    k = q
                    break
            p2 = nb(k, -1) if k is not None else ("", "edge")
            d.update({"prev2": _short(*p2), "prev2_cls": p2[1]})
        return d


def _short(t, c):
    if c.startswith("id") or c.startswith("const") or c.startswith("comment"):
        return c
    return t
