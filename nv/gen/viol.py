"""G-VIOL: one-violation edit operators on the IR (DESIGN §4.2).

An operator is (id, name, codes, line kinds, fn).  fn(prog, i, rng) works on a
copy of the program and returns (expected line index in the new program,
optional physical-line offset inside that Line) or None when the site does not
satisfy the operator's precondition.  `codes` lists the diagnostic codes that
designate the broken rule (first = canonical).
"""
import re

from nv.gen.ir import Line, SP, TAB, IND
from nv.oracle import vis_width

OPS = []


def op(vid, name, codes, kinds, ftypes=("c",), anyline=False):
    if isinstance(codes, str):
        codes = (codes,)

    def deco(f):
        OPS.append({"id": vid, "name": name, "codes": tuple(codes), "kinds": tuple(kinds), "fn": f,
                    "ftypes": tuple(ftypes), "anyline": anyline})
        return f
    return deco


def BY_NAME():
    return {o["name"]: o for o in OPS}


def sites(prog, o):
    if prog.ftype not in o["ftypes"]:
        return []
    return [i for i, l in enumerate(prog.lines) if l.kind in o["kinds"]]


def apply(prog, o, i, rng):
    """-> (new_prog, expected physical line number) or None"""
    p = prog.copy()
    if p.lines[i].kind == "fhead" and _is_split(p.lines[i]) and o["id"] not in WRAPPED_HEAD_OPS:
        return None         # a head wrapped over two lines: only the operators that know which physical line they edit
    res = o["fn"](p, i, rng)
    if res is None:
        return None
    if isinstance(res, tuple):
        idx, off = res
    else:
        idx, off = res, 0
    p.meta = dict(p.meta)
    p.meta["viol"] = o["name"]
    return p, p.lineno(idx) + off


def _fits(line, limit=80):
    return max(vis_width(x) for x in line.text().split("\n")) <= limit


def _is_split(l):
    return "\n" in l.text()


def _in_header_block(p, i):
    return p.lines[i].kind == "hdr"


WRAPPED_HEAD_OPS = ("V01", "V01b", "V02", "V46", "V47", "V69", "V70")
BODY = ("stmt", "decl", "ctrl")
CODE = ("stmt", "decl", "ctrl", "fhead", "proto", "global")


# ---------------------------------------------------------------- whitespace at line level

@op("V01", "trailing_space", "SPC_BEFORE_NL", CODE, ("c", "h"))
def _(p, i, r):
    l = p.lines[i]
    if l.segs and l.segs[-1][1].startswith("comment"):
        return None
    l.segs.append((" ", "ws:trail"))
    return i, l.text().count("\n")


@op("V01b", "trailing_space_inside_wrapped", "SPC_BEFORE_NL", ("stmt", "fhead"), ("c", "h"))
def _(p, i, r):
    """a blank before the line end *inside* a statement or a function head that continues on the next line"""
    l = p.lines[i]
    js = [j for j, (t, c) in enumerate(l.segs) if c == "ws:nl" and j and not l.segs[j - 1][1].startswith(("comment", "ws"))]
    if not js:
        return None
    j = r.choice(js)
    off = l.text()[:_offset(l, j)].count("\n")
    l.segs.insert(j, (" ", "ws:trail"))
    return i, off


@op("V02", "trailing_tab", "SPC_BEFORE_NL", CODE, ("c", "h"))
def _(p, i, r):
    l = p.lines[i]
    if l.segs and l.segs[-1][1].startswith("comment"):
        return None
    l.segs.append(("\t", "ws:trail"))
    return i, l.text().count("\n")


@op("V03", "space_indent", "SPACE_REPLACE_TAB", ("stmt", "ctrl", "brace_open", "brace_close"))
def _(p, i, r):
    l = p.lines[i]
    if l.segs[0][1] != "ws:indent":
        return None
    n = len(l.segs[0][0])
    l.segs[0] = ("    " * n, "ws:indent")
    if not _fits(l):
        return None
    return i


@op("V04", "too_few_tab", "TOO_FEW_TAB", ("stmt", "ctrl"))
def _(p, i, r):
    l = p.lines[i]
    n = len(l.segs[0][0])
    if n < 1:
        return None
    if n == 1:
        l.segs.pop(0)
    else:
        l.segs[0] = ("\t" * (n - 1), "ws:indent")
    return i


@op("V05", "too_many_tab", "TOO_MANY_TAB", ("stmt", "ctrl"))
def _(p, i, r):
    l = p.lines[i]
    l.segs[0] = ("\t" * (len(l.segs[0][0]) + 1), "ws:indent")
    if _is_split(l):
        return None
    if not _fits(l):
        return None
    return i


@op("V06", "space_empty_line", "SPACE_EMPTY_LINE", ("blank", "blank_in"), ("c", "h"))
def _(p, i, r):
    p.lines[i].segs = [(r.choice([" ", "\t", "  ", " \t"]), "ws:trail")]
    return i


@op("V07", "consecutive_newlines", "CONSECUTIVE_NEWLINES", ("blank",), ("c", "h"))
def _(p, i, r):
    p.lines.insert(i, Line("blank", []))
    return i + 1


@op("V08", "no_newline_between_funcs", "NEWLINE_PRECEDES_FUNC", ("blank",))
def _(p, i, r):
    if i == 0 or i + 1 >= len(p.lines) or p.lines[i - 1].kind != "fclose" or p.lines[i + 1].kind != "fhead":
        return None
    del p.lines[i]
    return i


@op("V09", "no_newline_after_decl", "NL_AFTER_VAR_DECL", ("blank_in",))
def _(p, i, r):
    del p.lines[i]
    return i


@op("V10", "empty_line_in_func", "EMPTY_LINE_FUNCTION", ("stmt",))
def _(p, i, r):
    if i + 1 >= len(p.lines) or p.lines[i + 1].kind == "fclose" and False:
        return None
    p.lines.insert(i + 1, Line("blank_in", [], 0, p.lines[i].func))
    return i + 1


@op("V11", "empty_line_eof", "EMPTY_LINE_EOF", ("fclose", "pp_endif"), ("c", "h"))
def _(p, i, r):
    if i != len(p.lines) - 1:
        return None
    p.lines.append(Line("blank", []))
    return i + 1


@op("V12", "empty_first_line", "EMPTY_LINE_FILE_START", ("hdr",), ("c", "h"))
def _(p, i, r):
    if i != 0:
        return None
    p.lines.insert(0, Line("blank", []))
    return 0


# ---------------------------------------------------------------- spaces inside a line

def _single_spaces(l):
    return [j for j in range(1, len(l.segs) - 1) if l.segs[j] == SP]


@op("V13", "consecutive_spaces", "CONSECUTIVE_SPC", ("stmt", "ctrl"))
def _(p, i, r):
    l = p.lines[i]
    js = _single_spaces(l)
    if not js:
        return None
    j = r.choice(js)
    l.segs[j] = ("  ", "ws:sp")
    if not _fits(l):
        return None
    return i, l.text()[:_offset(l, j)].count("\n")


def _offset(l, j):
    return sum(len(t) for t, _ in l.segs[:j])


@op("V14", "tab_instead_of_space", ("TAB_INSTEAD_SPC", "SPC_BFR_OPERATOR", "SPC_AFTER_OPERATOR"), ("stmt", "ctrl"))
def _(p, i, r):
    l = p.lines[i]
    js = [j for j in _single_spaces(l) if l.segs[j - 1][1] not in ("kw",) and l.segs[j + 1][1] != "ws:nl"]
    if not js or _is_split(l):
        return None
    j = r.choice(js)
    l.segs[j] = ("\t", "ws:sp")
    if not _fits(l):
        return None
    return i


# ---------------------------------------------------------------- declarations

def _decl_tab(l):
    for j, (t, c) in enumerate(l.segs):
        if c == "ws:tab":
            return j
    return None


@op("V15", "decl_space_not_tab", "SPACE_REPLACE_TAB", ("decl",))
def _(p, i, r):
    l = p.lines[i]
    j = _decl_tab(l)
    l.segs[j] = (" ", "ws:tab")
    return i


@op("V16", "decl_misaligned", "MISALIGNED_VAR_DECL", ("decl",))
def _(p, i, r):
    l = p.lines[i]
    if p.lines[i - 1].kind != "decl":
        return None
    j = _decl_tab(l)
    l.segs[j] = (l.segs[j][0] + "\t", "ws:tab")
    if not _fits(l):
        return None
    return i


@op("V17", "func_space_before_name", ("SPACE_BEFORE_FUNC", "SPACE_REPLACE_TAB"), ("fhead",))
def _(p, i, r):
    l = p.lines[i]
    j = _decl_tab(l)
    l.segs[j] = (" ", "ws:tab")
    return i


@op("V18", "func_two_tabs", "TOO_MANY_TABS_FUNC", ("fhead",))
def _(p, i, r):
    l = p.lines[i]
    j = _decl_tab(l)
    l.segs[j] = ("\t\t", "ws:tab")
    if not _fits(l):
        return None
    return i


@op("V19", "proto_misaligned", "MISALIGNED_FUNC_DECL", ("proto",), ("h",))
def _(p, i, r):
    l = p.lines[i]
    if p.lines[i - 1].kind != "proto":
        return None
    j = _decl_tab(l)
    l.segs[j] = (l.segs[j][0] + "\t", "ws:tab")
    if not _fits(l):
        return None
    return i


@op("V20", "proto_space_not_tab", "SPACE_REPLACE_TAB", ("proto",), ("h", "c"))
def _(p, i, r):
    l = p.lines[i]
    j = _decl_tab(l)
    l.segs[j] = (" ", "ws:tab")
    return i


def _func_lines(p, f):
    return [k for k, l in enumerate(p.lines) if l.func == f]


def _new_decl(name="zz9", t="int", col_from=None, init=None):
    segs = [IND(1), (t, "type"), TAB(1), (name, "id:var")]
    if init:
        segs += [SP, ("=", "op:assign"), SP, (init, "const:int")]
    segs.append((";", "punct"))
    return segs


@op("V21", "decl_after_stmt", "VAR_DECL_START_FUNC", ("stmt",))
def _(p, i, r):
    l = p.lines[i]
    if l.depth != 1:
        return None
    # the statement must be a top-level statement of the body, not the body of an unbraced control
    if p.lines[i - 1].kind == "ctrl":
        return None
    p.lines.insert(i + 1, Line("decl", _new_decl(), 1, l.func))
    return i + 1


@op("V22", "decl_assign", "DECL_ASSIGN_LINE", ("decl",))
def _(p, i, r):
    l = p.lines[i]
    if l.meta.get("ptr") or l.meta.get("arr") or l.meta.get("qualified"):
        return None
    if l.segs[1][1] != "type" or l.segs[1][0] in ("float", "double"):
        return None
    l.segs[-1:] = [SP, ("=", "op:assign"), SP, ("0", "const:int"), (";", "punct")]
    return i


@op("V23", "mult_decl", "MULT_DECL_LINE", ("decl",))
def _(p, i, r):
    l = p.lines[i]
    if l.meta.get("qualified"):
        return None
    l.segs[-1:] = [(",", "op:comma"), SP, ("zz8", "id:var"), (";", "punct")]
    return i


@op("V24", "decl_in_block", ("WRONG_SCOPE_VAR", "VAR_DECL_START_FUNC"), ("brace_open",))
def _(p, i, r):
    l = p.lines[i]
    d = l.depth + 1
    segs = [IND(d), ("int", "type"), TAB(1), ("zz7", "id:var"), (";", "punct")]
    p.lines.insert(i + 1, Line("decl", segs, d, l.func))
    return i + 1


@op("V25", "vla", "VLA_FORBIDDEN", ("decl",))
def _(p, i, r):
    l = p.lines[i]
    if l.meta.get("arr") or l.meta.get("qualified"):
        return None
    # needs an integer variable declared before: use a parameter-free name (any identifier is a VLA size)
    l.segs[-1:] = [("[", "punct"), ("zz", "id:var"), ("]", "punct"), (";", "punct")]
    return i


@op("V26", "space_after_pointer", "SPC_AFTER_POINTER", ("decl", "fhead", "proto"), ("c", "h"))
def _(p, i, r):
    l = p.lines[i]
    js = [j for j, (t, c) in enumerate(l.segs) if c == "op:ptr" and j + 1 < len(l.segs) and l.segs[j + 1][1].startswith("id")]
    if not js:
        return None
    j = r.choice(js)
    l.segs.insert(j + 1, (" ", "ws:bad"))
    if not _fits(l):
        return None
    return i


# ---------------------------------------------------------------- forbidden constructs

def _indent_of(l):
    return len(l.segs[0][0]) if l.segs and l.segs[0][1] == "ws:indent" else 0


def _top_stmt(p, i):
    """statement that is not the single body of an unbraced control structure"""
    return p.lines[i - 1].kind != "ctrl"


@op("V27", "for_loop", "FORBIDDEN_CS", ("stmt",))
def _(p, i, r):
    l = p.lines[i]
    if _is_split(l) or not _top_stmt(p, i):
        return None
    d = _indent_of(l)
    new = Line("ctrl", [IND(d), ("for", "kw"), SP, ("(", "punct"), (";", "punct"), (";", "punct"), (")", "punct")], d, l.func, kw="for")
    l.segs[0] = IND(d + 1)
    l.depth = d + 1
    if not _fits(l):
        return None
    p.lines.insert(i, new)
    return i


@op("V28", "switch_case", "FORBIDDEN_CS", ("stmt",))
def _(p, i, r):
    l = p.lines[i]
    if _is_split(l) or not _top_stmt(p, i):
        return None
    d = _indent_of(l)
    f = l.func
    new = [Line("ctrl", [IND(d), ("switch", "kw"), SP, ("(", "punct"), ("zz", "id:var"), (")", "punct")], d, f, kw="switch"),
           Line("brace_open", [IND(d), ("{", "punct")], d, f),
           Line("stmt", [IND(d + 1), ("break", "kw"), SP, (";", "punct")], d + 1, f),
           Line("brace_close", [IND(d), ("}", "punct")], d, f)]
    p.lines[i:i] = new
    return i


@op("V29", "goto", "GOTO_FBIDDEN", ("stmt",))
def _(p, i, r):
    l = p.lines[i]
    if not _top_stmt(p, i):
        return None
    d = _indent_of(l)
    p.lines.insert(i, Line("stmt", [IND(d), ("goto", "kw"), SP, ("end", "id:label"), (";", "punct")], d, l.func))
    return i


@op("V30", "label", "LABEL_FBIDDEN", ("stmt",))
def _(p, i, r):
    l = p.lines[i]
    if not _top_stmt(p, i):
        return None
    d = _indent_of(l)
    p.lines.insert(i, Line("stmt", [IND(d), ("end", "id:label"), (":", "punct")], d, l.func))
    return i


def _assign_stmt(l):
    """index of the top-level '=' of `x = e;`"""
    for j, (t, c) in enumerate(l.segs):
        if c == "op:assign":
            return j if t == "=" else None
    return None


@op("V31", "ternary", "TERNARY_FBIDDEN", ("stmt",))
def _(p, i, r):
    l = p.lines[i]
    j = _assign_stmt(l)
    if j is None or _is_split(l):
        return None
    l.segs[j + 2:] = [("zz", "id:var"), SP, ("?", "op:tern"), SP, ("1", "const:int"), SP, (":", "op:tern"), SP,
                      ("0", "const:int"), (";", "punct")]
    if not _fits(l):
        return None
    return i


@op("V31b", "ternary_on_continuation_line", "TERNARY_FBIDDEN", ("stmt",))
def _(p, i, r):
    l = p.lines[i]
    j = _assign_stmt(l)
    if j is None or _is_split(l):
        return None
    d = _indent_of(l)
    l.segs[j + 2:] = [("zz", "id:var"), ("\n", "ws:nl"), IND(d + 1), ("?", "op:tern"), SP, ("1", "const:int"), SP,
                      (":", "op:tern"), SP, ("0", "const:int"), (";", "punct")]
    if not _fits(l):
        return None
    l.meta["anyline_within"] = 1
    return i, 1


@op("V31c", "ternary_in_condition", "TERNARY_FBIDDEN", ("ctrl",))
def _(p, i, r):
    l = p.lines[i]
    js = [j for j, (t, c) in enumerate(l.segs) if t == "(" and c == "punct"]
    if not js or l.meta.get("kw") == "else":
        return None
    j = js[0]
    l.segs[j + 1:] = [("zz", "id:var"), SP, ("?", "op:tern"), SP, ("1", "const:int"), SP, (":", "op:tern"), SP, ("0", "const:int"),
                      (")", "punct")]
    return i


def _void_param(l):
    """index of the `void` of the function's own empty parameter list (not of a function-pointer parameter)"""
    for j in range(1, len(l.segs) - 2):
        if (l.segs[j - 1][1] == "id:func" and l.segs[j][0] == "(" and l.segs[j + 1] == ("void", "type")
                and l.segs[j + 2][0] == ")"):
            return j + 1
    return None


@op("V32", "no_args_void", "NO_ARGS_VOID", ("fhead", "proto"), ("c", "h"))
def _(p, i, r):
    l = p.lines[i]
    j = _void_param(l)
    if j is None:
        return None
    del l.segs[j]
    return i


@op("V33", "unnamed_param", "MISSING_IDENTIFIER", ("fhead", "proto"), ("c", "h"))
def _(p, i, r):
    l = p.lines[i]
    j = _void_param(l)
    if j is not None and l.kind == "fhead":
        l.segs[j] = ("int", "type")
        return i
    js = [k for k, (t, c) in enumerate(l.segs) if c == "id:param"]
    if not js or l.kind != "fhead":
        return None
    k = r.choice(js)
    t = k - 1
    while t > 0 and (l.segs[t][1].startswith("ws") or l.segs[t][1] == "op:ptr"):
        t -= 1
    l.meta["site"] = {"type_cls": l.segs[t][1], "pointer": l.segs[k - 1][1] == "op:ptr"}
    # drop the name (and the space before it when no asterisk is stuck to it)
    if l.segs[k - 1] == SP:
        del l.segs[k - 1:k + 1]
    else:
        del l.segs[k]
    return i


@op("V34", "five_params", "TOO_MANY_ARGS", ("fhead", "proto"), ("c", "h"))
def _(p, i, r):
    l = p.lines[i]
    n = l.meta.get("nparams")
    if n is None:
        return None
    close = max(k for k, (t, c) in enumerate(l.segs) if t == ")" and c == "punct")
    extra = []
    for k in range(5 - n):
        if n or k:
            extra += [(",", "op:comma"), SP]
        extra += [("int", "type"), SP, ("zp%d" % k, "id:param")]
    if n == 0:
        j = _void_param(l)
        del l.segs[j]
        close -= 1
    l.segs[close:close] = extra
    if not _fits(l):
        return None
    return i


@op("V35", "return_no_paren", "RETURN_PARENTHESIS", ("stmt",))
def _(p, i, r):
    l = p.lines[i]
    if len(l.segs) < 5 or l.segs[1] != ("return", "kw") or l.segs[3][0] != "(":
        return None
    l.segs[3:] = [("zz", "id:var"), (";", "punct")]
    return i


@op("V36", "brace_same_line_func", ("BRACE_NEWLINE", "BRACE_SHOULD_EOL", "EXP_NEWLINE"), ("fhead",))
def _(p, i, r):
    l = p.lines[i]
    if p.lines[i + 1].kind != "fopen":
        return None
    l.segs += [SP, ("{", "punct")]
    del p.lines[i + 1]
    if not _fits(l):
        return None
    return i


@op("V37", "stmt_after_brace", "BRACE_SHOULD_EOL", ("fopen",))
def _(p, i, r):
    n = p.lines[i + 1]
    if n.kind != "stmt" or _is_split(n):
        return None
    l = p.lines[i]
    l.segs += [SP] + n.segs[1:]
    del p.lines[i + 1]
    if not _fits(l):
        return None
    return i


# ---------------------------------------------------------------- names

def _rename_on_line(l, cls, f, r):
    js = [k for k, (t, c) in enumerate(l.segs) if c == cls]
    if not js:
        return None
    k = r.choice(js)
    new = f(l.segs[k][0])
    if new is None or new == l.segs[k][0]:
        return None
    l.segs[k] = (new, cls)
    return k


def _upper_one(name):
    for k, ch in enumerate(name):
        if ch.islower() and k > 0:
            return name[:k] + ch.upper() + name[k + 1:]
    if name and name[0].islower():
        return name[0].upper() + name[1:]
    return None


@op("V38", "upper_in_var", "FORBIDDEN_CHAR_NAME", ("decl",))
def _(p, i, r):
    l = p.lines[i]
    if _rename_on_line(l, "id:var", _upper_one, r) is None:
        return None
    return i


@op("V39", "upper_in_func", "FORBIDDEN_CHAR_NAME", ("fhead",))
def _(p, i, r):
    l = p.lines[i]
    if _rename_on_line(l, "id:func", _upper_one, r) is None:
        return None
    return i


@op("V40", "global_no_g", "GLOBAL_VAR_NAMING", ("global",), ("c", "h"))
def _(p, i, r):
    l = p.lines[i]
    # without any prefix, or with another one
    if _rename_on_line(l, "id:global", (lambda n: "k_" + n[2:]) if r.random() < 0.5 else (lambda n: "q" + n[2:] + "x"), r) is None:
        return None
    return i


@op("V41", "typedef_no_t", "USER_DEFINED_TYPEDEF", ("td_close",), ("h",))
def _(p, i, r):
    l = p.lines[i]
    if _rename_on_line(l, "id:type", (lambda n: "x_" + n[2:]) if r.random() < 0.5 else (lambda n: "q" + n[2:] + "x"), r) is None:
        return None
    return i


@op("V42", "tag_no_prefix", ("STRUCT_TYPE_NAMING", "UNION_TYPE_NAMING", "ENUM_TYPE_NAMING"), ("pp_endif",), ("h",))
def _(p, i, r):
    # plain (non-typedef) definition with a tag that lacks its s_/u_/e_ prefix
    which = r.choice(["struct", "union", "enum"])
    tag = r.choice(["x_zz", "point", "zzq", "color9"])
    new = [Line("td_head", [(which, "kw"), SP, (tag, "id:tag")], 0, -1, utype=which), Line("td_open", [("{", "punct")])]
    if which == "enum":
        new.append(Line("td_enum_member", [IND(1), ("ZZ", "id:enumconst")], 1))
    else:
        new.append(Line("td_member", [IND(1), ("int", "type"), TAB(1), ("a", "id:member"), (";", "punct")], 1))
    new += [Line("td_close", [("}", "punct"), (";", "punct")]), Line("blank", [])]
    p.lines[i:i] = new
    return i


@op("V43", "macro_lower", "MACRO_NAME_CAPITAL", ("pp_define",), ("c", "h"))
def _(p, i, r):
    l = p.lines[i]
    from nv.gen.conf import KEYWORDS, SPECIAL
    if _rename_on_line(l, "id:macro", lambda n: n.lower() if n.lower() != n and n.lower() not in KEYWORDS
                       and n.lower() not in SPECIAL else None, r) is None:
        return None
    return i


# ---------------------------------------------------------------- operator spacing

def _bin_sites(l, classes=("op:bin", "op:assign")):
    return [j for j in range(1, len(l.segs) - 1) if l.segs[j][1] in classes and l.segs[j - 1] == SP and l.segs[j + 1] == SP]


@op("V44", "no_space_before_op", "SPC_BFR_OPERATOR", ("stmt", "ctrl"))
def _(p, i, r):
    l = p.lines[i]
    js = _bin_sites(l)
    if not js:
        return None
    # gluing + or - to a numeric constant would change the C tokens themselves (pp-number: 1e-, 0x6e-)
    js = [j for j in js if not (l.segs[j][0] in ("+", "-") and l.segs[j - 2][1].startswith("const"))]
    if not js:
        return None
    j = r.choice(js)
    off = l.text()[:_offset(l, j)].count("\n")
    del l.segs[j - 1]
    pv = l.segs[j - 2]
    l.meta["site"] = {"op": l.segs[j - 1][0], "prev_cls": pv[1], "prev": pv[0] if pv[1].startswith("punct") else pv[1],
                      "next_cls": l.segs[j + 1][1] if j + 1 < len(l.segs) else None}
    return i, off


@op("V45", "no_space_after_op", ("SPC_AFTER_OPERATOR", "SPC_BFR_PAR", "SPC_BFR_OPERATOR"), ("stmt", "ctrl"))
def _(p, i, r):
    l = p.lines[i]
    js = [j for j in _bin_sites(l) if j + 2 < len(l.segs) and not _merges(l.segs[j][0], l.segs[j + 2][0])]
    if not js:
        return None
    j = r.choice(js)
    off = l.text()[:_offset(l, j)].count("\n")
    nxt = l.segs[j + 2] if j + 2 < len(l.segs) else ("", "edge")
    pv = l.segs[j - 2]
    l.meta["site"] = {"op": l.segs[j][0], "next": nxt[0] if not nxt[1].startswith(("id", "const")) else nxt[1],
                      "next_cls": nxt[1], "prev_cls": pv[1], "prev": pv[0] if pv[1].startswith("punct") else pv[1]}
    del l.segs[j + 1]
    return i, off


def _merges(op, nxt):
    """gluing `nxt` to `op` would form another C token (++, --, &&, ->, <<, ==, /*, //)"""
    if not nxt:
        return True
    a, b = op[-1], nxt[0]
    return (a == b and a in "+-&|<>=/") or (a == "/" and b == "*") or (a == "-" and b == ">") or (b == "=" )


def _comma_sites(l):
    return [j for j in range(len(l.segs) - 1) if l.segs[j][1] == "op:comma" and l.segs[j + 1] == SP]


@op("V46", "no_space_after_comma", ("SPC_AFTER_OPERATOR", "SPC_BFR_PAR", "SPC_BFR_OPERATOR"), ("stmt", "ctrl", "fhead", "proto"), ("c", "h"))
def _(p, i, r):
    l = p.lines[i]
    js = _comma_sites(l)
    if not js:
        return None
    j = r.choice(js)
    off = l.text()[:_offset(l, j)].count("\n")
    nxt = l.segs[j + 2]
    l.meta["site"] = {"next": nxt[0] if not nxt[1].startswith(("id", "const")) else nxt[1], "next_cls": nxt[1]}
    del l.segs[j + 1]
    return i, off


@op("V47", "space_before_comma", "NO_SPC_BFR_OPR", ("stmt", "ctrl", "fhead", "proto"), ("c", "h"))
def _(p, i, r):
    l = p.lines[i]
    js = _comma_sites(l)
    if not js:
        return None
    j = r.choice(js)
    off = l.text()[:_offset(l, j)].count("\n")
    l.segs.insert(j, (" ", "ws:bad"))
    if not _fits(l):
        return None
    return i, off


@op("V48a", "space_after_lpar", ("NO_SPC_AFR_PAR", "SPC_AFTER_PAR"), ("stmt", "ctrl"))
def _(p, i, r):
    l = p.lines[i]
    js = [j for j in range(len(l.segs) - 1) if l.segs[j] == ("(", "punct") and not l.segs[j + 1][1].startswith("ws")
          and l.segs[j + 1][0] != ")"]
    if not js:
        return None
    j = r.choice(js)
    off = l.text()[:_offset(l, j)].count("\n")
    nxt = l.segs[j + 1]
    l.meta["site"] = {"next": nxt[0] if not nxt[1].startswith(("id", "const")) else nxt[1], "next_cls": nxt[1],
                      "at_stmt_start": j == 1}
    l.segs.insert(j + 1, (" ", "ws:bad"))
    if not _fits(l):
        return None
    return i, off


@op("V48b", "space_before_rpar", ("NO_SPC_BFR_PAR",), ("stmt", "ctrl"))
def _(p, i, r):
    l = p.lines[i]
    js = [j for j in range(1, len(l.segs)) if l.segs[j][0] == ")" and l.segs[j][1] == "punct"
          and not l.segs[j - 1][1].startswith("ws") and l.segs[j - 1][0] != "("]
    if not js:
        return None
    j = r.choice(js)
    off = l.text()[:_offset(l, j)].count("\n")
    prv = l.segs[j - 1]
    l.meta["site"] = {"prev": prv[0] if not prv[1].startswith(("id", "const")) else prv[1], "prev_cls": prv[1]}
    l.segs.insert(j, (" ", "ws:bad"))
    if not _fits(l):
        return None
    return i, off


@op("V49a", "kw_no_space", "SPACE_AFTER_KW", ("ctrl",))
def _(p, i, r):
    l = p.lines[i]
    for j in range(len(l.segs) - 2):
        if l.segs[j][1] == "kw" and l.segs[j][0] in ("if", "while") and l.segs[j + 1] == SP and l.segs[j + 2][0] == "(":
            del l.segs[j + 1]
            return i
    return None


@op("V49b", "return_no_space", "SPACE_AFTER_KW", ("stmt",))
def _(p, i, r):
    l = p.lines[i]
    if len(l.segs) > 2 and l.segs[1][1] == "kw" and l.segs[1][0] in ("return", "break", "continue") and l.segs[2] == SP:
        del l.segs[2]
        return i
    return None


@op("V50", "space_after_unary", "SPC_AFTER_OPERATOR", ("stmt", "ctrl"))
def _(p, i, r):
    l = p.lines[i]
    js = [j for j in range(len(l.segs) - 1) if l.segs[j] == ("-", "op:un") and l.segs[j + 1][1] in ("id:var", "const:int")
          and j > 0 and (l.segs[j - 1][0] in ("(", "[") or (l.segs[j - 1] == SP and l.segs[j - 2][1] in ("op:assign", "op:bin", "op:comma")))]
    if not js:
        return None
    j = r.choice(js)
    off = l.text()[:_offset(l, j)].count("\n")
    l.segs.insert(j + 1, (" ", "ws:bad"))
    if not _fits(l):
        return None
    return i, off


@op("V51", "assign_in_control", "ASSIGN_IN_CONTROL", ("ctrl",))
def _(p, i, r):
    l = p.lines[i]
    js = [j for j, (t, c) in enumerate(l.segs) if t == "(" and c == "punct"]
    if not js or l.meta.get("kw") == "else":
        return None
    j = js[0]
    l.segs[j + 1:] = [("zz", "id:var"), SP, ("=", "op:assign"), SP, ("1", "const:int"), (")", "punct")]
    return i


@op("V51b", "assign_in_compound_literal_in_control", "ASSIGN_IN_CONTROL", ("ctrl",))
def _(p, i, r):
    """the assignment sits between the braces of a compound literal inside the condition"""
    l = p.lines[i]
    js = [j for j, (t, c) in enumerate(l.segs) if t == "(" and c == "punct"]
    if not js or l.meta.get("kw") == "else":
        return None
    j = js[0]
    l.segs[j + 1:] = [("ft_sum", "id:func"), ("(", "punct"), ("(", "punct"), ("int", "type"), SP, ("[", "punct"), ("2", "const:int"), ("]", "punct"),
                      (")", "punct:cast"), ("{", "punct"), ("zz", "id:var"), SP, ("=", "op:assign"), SP, ("2", "const:int"), (",", "op:comma"), SP,
                      ("2", "const:int"), ("}", "punct"), (")", "punct"), SP, ("<", "op:bin"), SP, ("10", "const:int"), (")", "punct")]
    if not _fits(l):
        return None
    return i


@op("V52", "two_instructions", "TOO_MANY_INSTR", ("stmt",))
def _(p, i, r):
    l = p.lines[i]
    if l.segs[-1][0] != ";":
        return None
    off = l.text().count("\n")
    l.segs += [SP, ("zz", "id:var"), SP, ("=", "op:assign"), SP, ("1", "const:int"), (";", "punct")]
    if not _fits(l):
        return None
    return i, off


@op("V53", "mult_assign", "MULT_ASSIGN_LINE", ("stmt",))
def _(p, i, r):
    l = p.lines[i]
    j = _assign_stmt(l)
    if j is None or j != 3 or l.segs[1][1] != "id:var":
        return None
    l.segs[j + 2:j + 2] = [("zz", "id:var"), SP, ("=", "op:assign"), SP]
    if not _fits(l):
        return None
    return i


@op("V54", "stmt_on_control_line", ("TOO_MANY_INSTR", "EXP_NEWLINE"), ("ctrl",))
def _(p, i, r):
    l = p.lines[i]
    n = p.lines[i + 1]
    if n.kind != "stmt" or _is_split(n) or l.meta.get("kw") == "else":
        return None
    l.segs += [SP] + n.segs[1:]
    del p.lines[i + 1]
    if not _fits(l):
        return None
    return i


@op("V55", "while_semicolon", ("EXP_NEWLINE", "TOO_MANY_INSTR"), ("ctrl",))
def _(p, i, r):
    l = p.lines[i]
    n = p.lines[i + 1]
    if l.meta.get("kw") != "while" or n.kind != "stmt":
        return None
    l.segs.append((";", "punct"))
    del p.lines[i + 1]
    return i


@op("V56", "operator_at_eol", "EOL_OPERATOR", ("stmt",))
def _(p, i, r):
    l = p.lines[i]
    if _is_split(l):
        return None
    js = [j for j in _bin_sites(l, ("op:bin",)) if l.segs[j][0] in ("+", "-", "&&", "||", "*", "/", "==", "<")]
    from nv.gen.conf import _depth_at
    js = [j for j in js if _depth_at(l.segs, j) == 0]
    if not js:
        return None
    j = r.choice(js)
    d = _indent_of(l)
    l.segs[j + 1] = ("\n", "ws:nl")
    l.segs.insert(j + 2, IND(d + 1))
    return i


# ---------------------------------------------------------------- comments

@op("V57", "comment_in_func", "WRONG_SCOPE_COMMENT", ("stmt",))
def _(p, i, r):
    l = p.lines[i]
    if not _top_stmt(p, i):
        return None
    d = _indent_of(l)
    c = r.choice([("// note", "comment:line"), ("/* note */", "comment:block")])
    p.lines.insert(i, Line("comment", [IND(d), c], d, l.func))
    return i


@op("V58", "comment_eol_in_func", "WRONG_SCOPE_COMMENT", ("stmt",))
def _(p, i, r):
    l = p.lines[i]
    off = l.text().count("\n")
    l.segs += [SP, r.choice([("// note", "comment:line"), ("/* note */", "comment:block")])]
    if not _fits(l):
        return None
    return i, off


@op("V59", "comment_in_instruction", "COMMENT_ON_INSTR", ("global", "proto"), ("c", "h"))
def _(p, i, r):
    l = p.lines[i]
    semi = [j for j in range(len(l.segs)) if l.segs[j] == (";", "punct")]
    js = [j for j in range(1, len(l.segs)) if l.segs[j] == SP and semi and j < semi[-1]]
    if not js:
        return None                 # no blank inside the instruction itself (a blank before a trailing comment does not count)
    j = js[0]
    l.segs[j + 1:j + 1] = [("/* x */", "comment:block"), SP]
    if not _fits(l):
        return None
    return i


# ---------------------------------------------------------------- preprocessor

@op("V60", "macro_function", "MACRO_FUNC_FORBIDDEN", ("pp_define",), ("c", "h"))
def _(p, i, r):
    l = p.lines[i]
    js = [k for k, (t, c) in enumerate(l.segs) if c == "id:macro"]
    if not js:
        return None
    k = js[0]
    l.segs[k + 1:k + 1] = [("(", "punct"), ("x", "id:param"), (")", "punct")]
    return i


@op("V61", "define_not_constant", "PREPROC_CONSTANT", ("pp_define",), ("c", "h"))
def _(p, i, r):
    l = p.lines[i]
    js = [k for k, (t, c) in enumerate(l.segs) if c == "id:macro"]
    if not js:
        return None
    k = js[0]
    which = r.randrange(2)
    if which == 0:
        l.segs[k + 1:] = [SP, ("1", "const:int"), SP, ("+", "op:bin"), SP, ("2", "const:int")]
    else:
        l.segs[k + 1:] = [SP, ("(", "punct"), ("1", "const:int"), (")", "punct")]
    return i


@op("V62", "include_c_file", "INCLUDE_HEADER_ONLY", ("pp_include",), ("c", "h"))
def _(p, i, r):
    l = p.lines[i]
    k = len(l.segs) - 1
    t = l.segs[k][0]
    l.segs[k] = (t[:-3] + ".c" + t[-1], "pp:path")
    return i


@op("V63", "include_after_code", "INCLUDE_START_FILE", ("fclose",))
def _(p, i, r):
    p.lines[i + 1:i + 1] = [Line("blank", []), Line("pp_include", [("#include", "pp"), SP, ("<zz.h>", "pp:path")])]
    return i + 2


@op("V64", "preproc_in_function", "PREPOC_ONLY_GLOBAL", ("stmt",))
def _(p, i, r):
    l = p.lines[i]
    if not _top_stmt(p, i):
        return None
    p.lines.insert(i, Line("pp_define", [("#define", "pp"), SP, ("ZZ", "id:macro"), SP, ("1", "const:int")], 0, l.func))
    return i


@op("V65", "preproc_spacing", ("PREPROC_NO_SPACE", "CONSECUTIVE_WS", "TAB_REPLACE_SPACE", "INCLUDE_MISSING_SP", "CONSECUTIVE_SPC",
                               "TAB_INSTEAD_SPC"), ("pp_include",), ("c",))
def _(p, i, r):
    l = p.lines[i]
    k = len(l.segs) - 2
    if l.segs[k] != SP:
        return None
    which = r.randrange(3)
    if which == 0:
        if not l.segs[k + 1][0].startswith("<"):
            return None
        del l.segs[k]
    elif which == 1:
        l.segs[k] = ("  ", "ws:bad")
    else:
        l.segs[k] = ("\t", "ws:bad")
    l.meta["which"] = which
    return i


@op("V66", "preproc_indent", ("PREPROC_BAD_INDENT", "TOO_MANY_WS", "PREPROC_START_LINE"), ("pp_include", "pp_define"), ("c", "h"))
def _(p, i, r):
    l = p.lines[i]
    if p.ftype == "h":
        # inside the guard: `# include` expected; remove or double the indentation
        if l.segs[0] != ("#", "pp") or l.segs[1] != SP:
            return None
        if r.random() < 0.5:
            del l.segs[1]
        else:
            l.segs[1] = ("  ", "ws:bad")
    else:
        l.segs.insert(0, (" ", "ws:bad"))
    return i


@op("V67", "stray_endif", ("PREPROC_BAD_ENDIF", "PREPROC_BAD_IFDEF", "PREPROC_BAD_IF"), ("fclose",))
def _(p, i, r):
    if i != len(p.lines) - 1:
        return None
    if r.random() < 0.5:
        p.lines += [Line("blank", []), Line("pp_endif", [("#endif", "pp")])]
        return i + 2
    p.lines += [Line("blank", []), Line("pp_ifdef", [("#ifdef", "pp"), SP, ("ZZ", "id:macro")])]
    return i + 2


@op("V68", "no_newline_after_preproc", "NL_AFTER_PREPROC", ("blank",))
def _(p, i, r):
    if i == 0 or i + 1 >= len(p.lines) or not p.lines[i - 1].kind.startswith("pp_") or p.lines[i + 1].kind.startswith("pp_"):
        return None
    if p.lines[i + 1].kind == "comment":
        return None
    del p.lines[i]
    return i


@op("V69", "utype_in_c", ("FORBIDDEN_STRUCT", "FORBIDDEN_TYPEDEF", "FORBIDDEN_UNION", "FORBIDDEN_ENUM"), ("fhead",))
def _(p, i, r):
    which = r.randrange(4)
    if which == 0:
        new = [Line("td_head", [("struct", "kw"), SP, ("s_zz", "id:tag")]), Line("td_open", [("{", "punct")]),
               Line("td_member", [IND(1), ("int", "type"), TAB(1), ("a", "id:member"), (";", "punct")], 1),
               Line("td_close", [("}", "punct"), (";", "punct")]), Line("blank", [])]
    elif which == 1:
        new = [Line("typedef", [("typedef", "kw"), SP, ("int", "type"), TAB(1), ("t_zz", "id:type"), (";", "punct")]),
               Line("blank", [])]
    elif which == 2:
        new = [Line("td_head", [("union", "kw"), SP, ("u_zz", "id:tag")]), Line("td_open", [("{", "punct")]),
               Line("td_member", [IND(1), ("int", "type"), TAB(1), ("a", "id:member"), (";", "punct")], 1),
               Line("td_close", [("}", "punct"), (";", "punct")]), Line("blank", [])]
    else:
        new = [Line("td_head", [("enum", "kw"), SP, ("e_zz", "id:tag")]), Line("td_open", [("{", "punct")]),
               Line("td_enum_member", [IND(1), ("ZZ", "id:enumconst")], 1),
               Line("td_close", [("}", "punct"), (";", "punct")]), Line("blank", [])]
    # a comment line may sit between the previous item and this function head: insert before it
    p.lines[i:i] = new
    return i


@op("V70", "control_at_file_scope", ("WRONG_SCOPE", "WRONG_SCOPE_CS"), ("fhead",))
def _(p, i, r):
    new = [Line("ctrl", [("if", "kw"), SP, ("(", "punct"), ("1", "const:int"), (")", "punct")], 0, -1, kw="if"),
           Line("stmt", [IND(1), ("zz", "id:var"), SP, ("=", "op:assign"), SP, ("1", "const:int"), (";", "punct")], 1, -1),
           Line("blank", [])]
    p.lines[i:i] = new
    return i


@op("V71a", "line_too_long", "LINE_TOO_LONG", ("global", "proto", "stmt", "decl"), ("c", "h"))
def _(p, i, r):
    l = p.lines[i]
    if _is_split(l) or (l.segs and l.segs[-1][1].startswith("comment")):
        return None
    w = l.width()
    target = r.randint(81, 86)
    pad = target - w - 7          # ` /* ` + ` */`
    if pad < 1:
        return None
    l.segs += [SP, ("/* " + "x" * pad + " */", "comment:block")]
    if l.width() != target:
        return None
    return i


@op("V72", "no_header", "INVALID_HEADER", ("hdr",), ("c", "h"), anyline=True)
def _(p, i, r):
    if i != 0:
        return None
    n = 0
    while n < len(p.lines) and p.lines[n].kind == "hdr":
        n += 1
    if n < len(p.lines) and p.lines[n].kind == "blank":
        n += 1
    del p.lines[:n]
    return 0
