"""Reference grammar of C constants (C11 6.4.4 + the extensions property C11
names), written from the standard, not from the lexer (DESIGN §4.11).

Every generator yields (spelling, family) pairs; `family` names the shape so
that coverage and finding predicates can talk about it.
"""
import itertools
import random

DEC = "0123456789"
OCT = "01234567"
HEX = "0123456789abcdefABCDEF"


def _case_orders(a, b):
    """suffix made of parts a and b: both orders, each part wholly lower or upper"""
    out = []
    for x in (a.lower(), a.upper()):
        for y in (b.lower(), b.upper()):
            out += [x + y, y + x]
    return out


INT_SUFFIXES = sorted(set(
    ["", "u", "U", "l", "L", "ll", "LL", "z", "Z", "wb", "WB", "i64", "I64"]
    + _case_orders("u", "l") + _case_orders("u", "ll") + _case_orders("u", "z") + _case_orders("u", "wb")
    + ["ui64", "UI64", "Ui64", "uI64"]))
FLOAT_SUFFIXES = ["", "f", "F", "l", "L", "d", "D"]
PREFIXES = ["", "L", "u", "U", "u8"]

SIMPLE_ESCAPES = ["\\'", "\\\"", "\\?", "\\\\", "\\a", "\\b", "\\f", "\\n", "\\r", "\\t", "\\v"]


def digit_strings(alphabet, first, maxlen, rng=None, sample=None):
    """digit strings first + alphabet* up to maxlen (exhaustive, or `sample` random ones)"""
    for L in range(1, maxlen + 1):
        if sample is None or len(first) * len(alphabet) ** (L - 1) <= sample:
            for f in first:
                for rest in itertools.product(alphabet, repeat=L - 1):
                    yield f + "".join(rest)
        else:
            for _ in range(sample):
                yield rng.choice(first) + "".join(rng.choice(alphabet) for _ in range(L - 1))


def valid_integers(maxlen=3, rng=None, sample=None, suffixes=None):
    sufs = INT_SUFFIXES if suffixes is None else suffixes
    for d in digit_strings(DEC, "123456789", maxlen, rng, sample):
        for s in sufs:
            yield d + s, "int:dec"
    for s in sufs:
        yield "0" + s, "int:zero"
    for d in digit_strings(OCT, OCT, maxlen, rng, sample):
        for s in sufs:
            yield "0" + d + s, "int:oct"
    for x in "xX":
        for d in digit_strings(HEX, HEX, maxlen, rng, sample):
            for s in sufs:
                if s and s[0] in "wW" and False:
                    continue
                yield "0" + x + d + s, "int:hex"
    for b in "bB":
        for d in digit_strings("01", "01", maxlen + 1, rng, sample):
            for s in sufs:
                yield "0" + b + d + s, "int:bin"


def _exps(digits):
    for e in "eE":
        for sg in ("", "+", "-"):
            for d in digits:
                yield e + sg + d


def valid_floats(maxlen=2, rng=None, sample=None, suffixes=None):
    sufs = FLOAT_SUFFIXES if suffixes is None else suffixes
    ds = list(digit_strings(DEC, DEC, maxlen, rng, sample))
    exps = [""] + list(_exps(["0", "7", "12"]))
    for a in ds:
        for b in [""] + ds:
            for e in exps:
                for s in sufs:
                    yield a + "." + b + e + s, ("float:frac" if b else "float:trail_dot") + ("_e" if e else "")
    for b in ds:
        for e in exps:
            for s in sufs:
                yield "." + b + e + s, "float:lead_dot" + ("_e" if e else "")
    for a in ds:
        for e in exps[1:]:
            for s in sufs:
                yield a + e + s, "float:exp"
    hs = list(digit_strings(HEX, HEX, maxlen, rng, sample if sample is None else max(4, sample // 8)))
    pexps = [p + sg + d for p in "pP" for sg in ("", "+", "-") for d in ("0", "3", "10")]
    for x in "xX":
        for a in hs:
            for e in pexps:
                for s in sufs:
                    yield "0" + x + a + e + s, "hexfloat:int"
                    yield "0" + x + a + "." + e + s, "hexfloat:empty_frac"
            for b in hs[:12]:
                for e in pexps[:6]:
                    for s in sufs:
                        yield "0" + x + a + "." + b + e + s, "hexfloat:frac"
        for b in hs:
            for e in pexps[:6]:
                for s in sufs:
                    yield "0" + x + "." + b + e + s, "hexfloat:empty_int"


C_CHARS = [chr(c) for c in range(32, 127) if chr(c) not in "'\\"]
S_CHARS = [chr(c) for c in range(32, 127) if chr(c) not in "\"\\"]


def escapes():
    for e in SIMPLE_ESCAPES:
        yield e, "esc:simple"
    for n in (1, 2, 3):
        for d in ("0", "7", "1", "3"):
            yield "\\" + (d * n), "esc:oct%d" % n
    yield "\\101", "esc:oct3"
    yield "\\377", "esc:oct3"
    for n in (1, 2):
        for d in ("0", "a", "F", "9"):
            yield "\\x" + (d * n), "esc:hex%d" % n
    yield "\\x41", "esc:hex2"
    for n in (3, 4, 8):
        yield "\\x" + ("a" * n), "esc:hexlong"
        yield "\\x" + ("1" * n), "esc:hexlong"
    yield "\\u00e9", "esc:ucn"
    yield "\\U0001F600", "esc:ucn"


def valid_chars():
    for p in PREFIXES:
        for c in C_CHARS:
            yield p + "'" + c + "'", "char:plain"
        for e, fam in escapes():
            yield p + "'" + e + "'", "char:" + fam


def valid_strings(rng, n=400):
    esc = [e for e, _ in escapes()]
    fams = {e: f for e, f in escapes()}
    for p in PREFIXES:
        yield p + '""', "str:empty"
        for e in esc:
            yield p + '"' + e + '"', "str:" + fams[e]
            yield p + '"a' + e + ' b"', "str:" + fams[e]
    for _ in range(n):
        p = rng.choice(PREFIXES)
        k = rng.randint(1, 12)
        body = []
        fam = "str:plain"
        for _ in range(k):
            if rng.random() < 0.25:
                e = rng.choice(esc)
                # an escape followed by a hex/octal digit would extend it: keep a separator
                body.append(e)
                if fams[e] != "esc:simple":
                    body.append(" ")
                    if fam == "str:plain":
                        fam = "str:mixed"
                if fams[e] == "esc:ucn":
                    fam = "str:esc:ucn"
                elif fams[e] == "esc:hexlong" and fam != "str:esc:ucn":
                    fam = "str:esc:hexlong"
            else:
                body.append(rng.choice(S_CHARS))
        yield p + '"' + "".join(body) + '"', fam


# ---------------------------------------------------------------- malformed families

def malformed():
    """(spelling, family, required code)"""
    for s in ["08", "09", "0128", "0791", "00009", "018u", "0778L"]:
        yield s, "bad:oct_digit", "INVALID_OCT_INT"
    for s in ["0b2", "0b102", "0B1191", "0b012", "0b13u", "0b9"]:
        yield s, "bad:bin_digit", "INVALID_BIN_INT"
    # ll / wb written in mixed case are not suffixes (C11 6.4.4.1: ll or LL; C23: wb or WB)
    for body in ["1", "10", "0x1f", "07", "0b1", "9"]:
        for suf in ["lL", "Ll", "ulL", "uLl", "lLu", "LlU", "wB", "Wb", "uwB", "Wbu"]:
            yield body + suf, "bad:int_suffix_case_mix", "INVALID_SUFFIX"
    # a suffix of the other family: float suffixes on integers, integer suffixes on floats
    for s in ["1f", "10F", "7d", "0x1ff" + "q", "3df", "9fi"]:
        yield s, "bad:int_with_float_suffix", "INVALID_SUFFIX"
    for s in ["1.0u", "2.5ll", "1e3z", "1.0wb", "0x1p3u", ".5UL", "3.i64", "1.5e2uz"]:
        yield s, "bad:float_with_int_suffix", "BAD_FLOAT_SUFFIX"
    for s in ["12ab", "1q", "7lul", "1ulll", "5uu", "0x1fg", "0xg", "0XABz1", "12_", "9lL", "3Ll", "10ulu",
              "0b1x", "017q"]:
        yield s, "bad:int_suffix", "INVALID_SUFFIX"
    for s in ["1.5q", "1.0ff", "2.5lf", "1e5x", "1.e3q", ".5fl", "3.14_", "0x1p3q", "0x1.8p1ff"]:
        yield s, "bad:float_suffix", "BAD_FLOAT_SUFFIX"
    for s in ["1e", "1e+", "1E-", "12e", "9E", "1ef", "1e+f"]:
        yield s, "bad:exponent_int_mantissa", "BAD_EXPONENT"
    for s in ["1.5e-", "1.e", ".5E", "1.5e", "2.e+", ".25e-f"]:
        yield s, "bad:exponent_frac_mantissa", "BAD_EXPONENT"
    for s in ["1.2.3", "1..2", ".5.5", "1.5.", "10.0.0.1"]:
        yield s, "bad:dots", "MULTIPLE_DOTS"
    for s in ["0xx1.8p1", "0xX1p3", "0xxAp2"]:
        yield s, "bad:multiple_x", "MULTIPLE_X"
    for s in ["0xe+1", "0xE-2", "0x1e+1", "0XAE-b"]:
        yield s, "bad:maximal_munch", "MAXIMAL_MUNCH"
    yield "''", "bad:empty_char", "EMPTY_CHAR"
    yield "L''", "bad:empty_char", "EMPTY_CHAR"
    for s in ["'a\n", "'\n", "'ab\n", "'\\n\n"]:
        yield s, "bad:char_eol", "UNEXPECTED_EOL_CHR"
    for s in ["'a", "'", "'ab", "'\\n"]:
        yield s, "bad:char_eof", "UNEXPECTED_EOF_CHR"
    for s in ["\"abc", "\"", "\"a\\\"", "L\"x"]:
        yield s, "bad:str_eof", "UNEXPECTED_EOF_STR"
    for s in ["'\\x'", "\"\\x\"", "\"a\\xg\"", "'\\xg'"]:
        yield s, "bad:hex_escape", "NO_HEX_DIGITS"
    for s in ["'\\q'", "\"\\q\"", "\"a\\zb\"", "'\\%'", "\"\\ \""]:
        yield s, "bad:escape", "UNKNOWN_ESCAPE"
    for s in ["/* abc", "/*", "/* a\nb", "/* a *"]:
        yield s, "bad:comment_eof", "UNEXPECTED_EOF_MC"


# ---------------------------------------------------------------- shapes used by G-CONF

# families with a recorded defect are not planted into conforming programs
# (they are exercised, and reported as known findings, by C11 itself)
CONF_EXCLUDED = {"hexfloat:empty_frac", "hexfloat:empty_int", "char:esc:ucn", "char:esc:hexlong",
                 "str:esc:ucn", "str:esc:hexlong"}


def _stride(items, target):
    items = sorted(set(items), key=lambda s: (len(s), s))
    if len(items) <= target:
        return items
    step = len(items) / float(target)
    return [items[int(k * step)] for k in range(target)]


def conf_int_list():
    r = random.Random(11)
    full = [s for s, f in valid_integers(maxlen=2)]
    out = _stride(full, 3000)
    out += [s for s, f in valid_integers(maxlen=1)]
    out += [s for s, f in valid_integers(maxlen=7, rng=r, sample=6, suffixes=["", "u", "UL", "ll"])]
    out += ["0xb3ba", "0xB1", "0Xb0", "0xbb", "0xe", "0xE1", "0x1e", "0b0", "0b1", "0xb", "0XB"]
    return sorted(set(out), key=lambda s: (len(s), s))


def conf_float_list():
    full = [s for s, f in valid_floats(maxlen=1) if f not in CONF_EXCLUDED]
    out = _stride(full, 3000)
    r = random.Random(12)
    out += _stride([s for s, f in valid_floats(maxlen=3, rng=r, sample=4, suffixes=["", "f", "L"])
                    if f not in CONF_EXCLUDED], 600)
    return sorted(set(out), key=lambda s: (len(s), s))


def conf_char_list():
    return [s for s, f in valid_chars() if f not in CONF_EXCLUDED]


def long_constants():
    """valid constants much longer than any fixed look-ahead a lexer might use"""
    for n in (30, 63, 64, 65, 66, 100, 300, 1023, 1024, 4095, 4096, 4097, 8192, 65535, 65536, 70001):
        yield "0b" + "10" * (n // 2) + "1", "int:bin"
        yield "0b" + "1" * n + "ULL", "int:bin"
        yield "1" + "0" * n, "int:dec"
        yield "0x" + "f" * n + "u", "int:hex"
        yield "0" + "7" * n, "int:oct"
        yield "3." + "14159265" * (n // 8 + 1) + "L", "float:frac"
        yield "0." + "0" * n + "89", "float:frac"
        yield "1" + "0" * n + "e+10", "float:exp"
        yield "1" + "0" * n + ".5", "float:frac"
        yield "1" + "0" * n + "E-5f", "float:exp"
        yield "1" + "0" * n + ".", "float:frac"
        yield "1." + "0" * n + "e" + "1" * min(n, 400), "float:exp"
        yield "0x0." + "0" * n + "1p+64", "hexfloat:frac"


def long_malformed():
    for n in (64, 65, 100, 1024, 4095, 4096, 4097, 70001):
        yield "9" * n + "e", "bad:exponent", "BAD_EXPONENT"
        yield "9" * n + "e+", "bad:exponent", "BAD_EXPONENT"
        yield "0b" + "1" * n + "2", "bad:bin_digit", "INVALID_BIN_INT"
        yield "0" + "7" * n + "8", "bad:oct_digit", "INVALID_OCT_INT"
        yield "1." + "0" * n + ".5", "bad:dots", "MULTIPLE_DOTS"
        yield "1." + "0" * n + "q", "bad:float_suffix", "BAD_FLOAT_SUFFIX"
