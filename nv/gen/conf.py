"""G-CONF: generator of Norm-conforming .c / .h files as IR (DESIGN §4.1)."""
import random
import string
import zlib

from nv.gen.ir import Line, Prog, SP, TAB, IND
from nv.gen import literals
from nv.oracle import vis_width, header42_lines

KEYWORDS = set(("auto break case char const continue default do double else enum extern float for goto if int "
                "long register return short signed sizeof static struct switch typedef union unsigned void "
                "volatile while inline NULL restrict").split())
SPECIAL = {"environ", "defined", "__attribute__", "main", "size_t"}
HOSTILE = ("bool true false nullptr typeof alignas asm class new this in i fo ifx elsee returnx size len errno "
           "printf malloc free write read x e p b u l h n str ptr tmp ret res idx buf fd hex exp e1 x0 b1 u8x l1 "
           "p2 h_h val_t list_t a_h null nil delete try catch and or not xor int32 uint ssize auto_ ifdef "
           "include define endif pragma once line file data next prev head tail o0 o7 xff e10 f1 d2 ul ll z wb "
           "i64 lu").split()
PREFIX_CLASSES = ("g_", "s_", "t_", "u_", "e_")

INT_TYPES = ["int", "char", "long", "short", "unsigned int", "unsigned char", "unsigned long", "long long",
             "size_t", "float", "double", "unsigned long long", "signed char", "long int", "unsigned short"]
INTEGER_TYPES = ["int", "char", "long", "short", "unsigned int", "unsigned char", "unsigned long", "long long",
                 "size_t", "unsigned long long", "signed char", "long int", "unsigned short"]

_INTS = literals.conf_int_list()
_FLOATS = literals.conf_float_list()
_CHARS = literals.conf_char_list()

BIN_ARITH = ["+", "-", "*", "/"]
BIN_INT = ["%", "&", "|", "^", "<<", ">>"]
BIN_CMP = ["<", ">", "<=", ">=", "==", "!=", "&&", "||"]
BIN = BIN_ARITH + BIN_INT + BIN_CMP
ASSIGN_OPS = ["=", "+=", "-=", "*=", "/=", "%=", "&=", "|=", "^=", "<<=", ">>="]


def W(segs, start=0):
    return vis_width("".join(t for t, _ in segs), start)


def text(segs):
    return "".join(t for t, _ in segs)


def type_segs(t):
    """segments of a type name"""
    if t.startswith("struct "):
        return [("struct", "kw"), SP, (t[7:], "id:tag")]
    if t.startswith("t_"):
        return [(t, "id:type")]
    if t == "size_t":
        return [(t, "id:lib")]
    return [(t, "type")]


def pad_tabs(width_now, col):
    """number of tabs needed to go from 0-based width `width_now` to column `col` (0-based, multiple of 4)"""
    n = 0
    w = width_now
    while w < col:
        w = (w // 4 + 1) * 4
        n += 1
    return max(n, 1)


class Env:
    def __init__(self, void):
        self.ints = []      # integer-typed variables
        self.flts = []      # float/double variables
        self.ptrs = []      # pointers to integer types / arrays
        self.structs = []   # struct values
        self.sptrs = []     # struct pointers
        self.funcs = []     # callable names
        self.fptrs = []     # function-pointer parameters
        self.void = void

    def nums(self):
        return self.ints + self.flts


class Gen:
    def __init__(self, seed, cyc=0):
        self.r = random.Random(seed)
        self.x = random.Random("x/%r" % (seed,))   # second stream: later extensions draw here, the first stream stays put
        self.used = set()
        self.feats = set()
        self.cyc = cyc            # offset into the cycling coverage lists
        self.n_planted = 0
        self.types = []           # t_ names known in this file
        self.tags = []            # s_ names
        self.members = []         # member names (stable pool so that chains look real)
        self.avoid = set()        # features a caller does not want (known findings it cannot classify itself)

    # ------------------------------------------------------------ names
    def ident(self, prefix="", lo=1, hi=8, hostile=0.35):
        r = self.r
        for _ in range(1000):
            if not prefix and r.random() < hostile:
                s = r.choice(HOSTILE)
            else:
                n = r.randint(lo, hi)
                s = r.choice(string.ascii_lowercase) + "".join(
                    r.choice(string.ascii_lowercase + string.digits + "_") for _ in range(n - 1))
            s = prefix + s
            if s in KEYWORDS or s in SPECIAL or s in self.used:
                continue
            if not prefix and s[:2] in PREFIX_CLASSES:
                continue
            if not prefix and s.startswith("ft_"):
                continue
            self.used.add(s)
            return s
        raise RuntimeError("no identifier")

    def xdo(self, f, *a, **kw):
        """call a generator method with the second stream in place of the first"""
        keep, self.r = self.r, self.x
        try:
            return f(*a, **kw)
        finally:
            self.r = keep

    def macro(self):
        r = self.r
        for _ in range(1000):
            s = r.choice(string.ascii_uppercase) + "".join(
                r.choice(string.ascii_uppercase + string.digits + "_") for _ in range(r.randint(1, 8)))
            if s not in self.used and s != "NULL":
                self.used.add(s)
                return s
        raise RuntimeError("no macro")

    def member(self):
        if self.members and self.r.random() < 0.6:
            return self.r.choice(self.members)
        m = self.ident(hostile=0.2)
        self.members.append(m)
        return m

    # ------------------------------------------------------------ constants
    def _cycled(self, lst, p=0.5):
        if self.r.random() < p:
            self.cyc += 1
            self.n_planted += 1
            return lst[(self.cyc * 7919) % len(lst)]
        return self.r.choice(lst)

    def int_const(self):
        self.feats.add("int_const")
        return (self._cycled(_INTS), "const:int")

    def float_const(self):
        self.feats.add("float_const")
        return (self._cycled(_FLOATS), "const:float")

    def char_const(self):
        self.feats.add("char_const")
        return (self._cycled(_CHARS), "const:char")

    def str_const(self):
        r = self.r
        n = r.randint(0, 8)
        alphabet = list("abcdefghij XYZ0123456789+-*/%;,(){}[]<>=!&|^~:#.'") + ["\\n", "\\t", "\\\"", "\\\\", "%d",
                                                                                 "%s", "\\0", "\\x41 ", "\\101"]
        self.feats.add("str_const")
        p = r.choice(["", "", "", "", "L", "u8", "u", "U"]) if r.random() < 0.15 else ""
        return (p + '"' + "".join(r.choice(alphabet) for _ in range(n)) + '"', "const:str")

    def const(self, integer=False):
        x = self.r.random()
        if integer:
            return self.int_const() if x < 0.8 else self.char_const()
        if x < 0.6:
            return self.int_const()
        if x < 0.75:
            return self.float_const()
        return self.char_const()

    # ------------------------------------------------------------ expressions
    # every function returns a list of segments; `integer` asks for an operand
    # usable with % & | ^ << >> ~ (no floating constant inside)
    def var(self, env, integer=True):
        pool = env.ints if integer else env.nums()
        if pool:
            return [(self.r.choice(pool), "id:var")]
        return [self.const(integer=True)]

    def atom(self, env, depth, integer=True):
        r = self.r
        x = r.random()
        if depth <= 0 or x < 0.3:
            if r.random() < 0.6 and (env.ints or (env.flts and not integer)):
                return self.var(env, integer)
            return [self.const(integer)]
        if x < 0.45:
            self.feats.add("call")
            return self.call(env, depth - 1)
        if x < 0.55 and env.ptrs:
            self.feats.add("index")
            return [(r.choice(env.ptrs), "id:var"), ("[", "punct")] + self.expr(env, depth - 1, True) + [("]", "punct")]
        if x < 0.62 and env.structs:
            self.feats.add("member.")
            return [(r.choice(env.structs), "id:var"), (".", "op:member"), (self.member(), "id:member")]
        if x < 0.7 and env.sptrs:
            self.feats.add("member->")
            return [(r.choice(env.sptrs), "id:var"), ("->", "op:member"), (self.member(), "id:member")]
        if x < 0.8:
            self.feats.add("paren")
            return [("(", "punct")] + self.expr(env, depth - 1, integer) + [(")", "punct")]
        if x < 0.87:
            self.feats.add("sizeof")
            return self.sizeof(env)
        if x < 0.94:
            self.feats.add("cast")
            t = r.choice(["int", "char", "long", "unsigned int", "unsigned char", "size_t"])
            return [("(", "punct")] + type_segs(t) + [(")", "punct:cast")] + self.atom(env, depth - 1, integer)
        y = r.random()
        if env.ptrs and y < 0.3:
            self.feats.add("deref")
            return [("*", "op:un"), (r.choice(env.ptrs), "id:var")]
        if env.ptrs and y < 0.4:
            self.feats.add("deref_paren")
            return [("(", "punct"), ("*", "op:un"), (r.choice(env.ptrs), "id:var"), (")", "punct")]
        if env.sptrs and y < 0.55:
            self.feats.add("chain")
            return [(r.choice(env.sptrs), "id:var"), ("->", "op:member"), (self.member(), "id:member"),
                    ("->", "op:member"), (self.member(), "id:member")]
        if env.sptrs and y < 0.65:
            self.feats.add("chain_idx")
            return [(r.choice(env.sptrs), "id:var"), ("->", "op:member"), (self.member(), "id:member"),
                    ("[", "punct")] + self.expr(env, 0, True) + [("]", "punct")]
        if env.structs and y < 0.75:
            return [(r.choice(env.structs), "id:var"), (".", "op:member"), (self.member(), "id:member"),
                    (".", "op:member"), (self.member(), "id:member")]
        if env.ptrs and y < 0.85:
            self.feats.add("ptrcast")
            t = r.choice(["int", "char", "unsigned char", "long"] + self.types[:1])
            return [("*", "op:un"), ("(", "punct")] + type_segs(t) + [SP, ("*", "op:ptr"), (")", "punct:cast"),
                                                                      (r.choice(env.ptrs), "id:var")]
        if env.ptrs and y < 0.92:
            self.feats.add("idx2")
            return ([(r.choice(env.ptrs), "id:var"), ("[", "punct")] + self.expr(env, 0, True) + [("]", "punct"), ("[", "punct")]
                    + self.expr(env, 0, True) + [("]", "punct")])
        if env.sptrs:
            self.feats.add("sizeof_deref")
            return [("sizeof", "kw"), ("(", "punct"), ("*", "op:un"), (r.choice(env.sptrs), "id:var"), (")", "punct")]
        return [self.const(integer)]

    def sizeof(self, env):
        r = self.r
        x = r.random()
        inner = None
        if x < 0.5 or not env.ints:
            t = r.choice(["int", "char", "long", "unsigned int"] + self.types[:2])
            inner = type_segs(t)
            if r.random() < 0.3:
                inner = inner + [SP, ("*", "op:ptr")]
        else:
            inner = [(r.choice(env.ints), "id:var")]
        return [("sizeof", "kw"), ("(", "punct")] + inner + [(")", "punct")]

    def callee(self, env):
        r = self.r
        x = r.random()
        if env.fptrs and x < 0.25:
            self.feats.add("call_fptr")
            f = (r.choice(env.fptrs), "id:var")
            if r.random() < 0.5:
                return [f]
            return [("(", "punct"), ("*", "op:un"), f, (")", "punct")]
        if env.sptrs and x < 0.32 and "call_member" not in self.avoid:
            self.feats.add("call_member")
            return [(r.choice(env.sptrs), "id:var"), ("->", "op:member"), (self.member(), "id:member")]
        return [(r.choice(env.funcs), "id:func")]

    def call(self, env, depth):
        r = self.r
        n = r.randint(0, 3)
        out = self.callee(env) + [("(", "punct")]
        for k in range(n):
            if k:
                out += [(",", "op:comma"), SP]
            y = r.random()
            if y < 0.15:
                out.append(self.str_const())
                if r.random() < 0.15:
                    self.feats.add("str_concat")
                    out += [SP, self.str_const()]
            elif y < 0.25 and env.ints:
                self.feats.add("addrof")
                out += [("&", "op:un"), (r.choice(env.ints), "id:var")]
            elif y < 0.35 and env.ptrs:
                out.append((r.choice(env.ptrs), "id:var"))
            elif y < 0.4:
                out.append(("NULL", "kw"))
            elif y < 0.45 and env.ptrs:
                t = r.choice(["char", "void", "unsigned char"] + self.types[:1])
                out += [("(", "punct")] + type_segs(t) + [SP, ("*", "op:ptr"), (")", "punct:cast"),
                                                         (r.choice(env.ptrs), "id:var")]
            elif y < 0.5 and env.ptrs:
                out += [("&", "op:un"), (r.choice(env.ptrs), "id:var"), ("[", "punct")] + self.expr(env, 0, True) + [("]", "punct")]
            elif y < 0.53 and env.sptrs:
                out += [("&", "op:un"), (r.choice(env.sptrs), "id:var"), ("->", "op:member"), (self.member(), "id:member")]
            elif y < 0.56 and env.ptrs:
                out += [(r.choice(env.ptrs), "id:var"), SP, ("+", "op:bin"), SP] + self.expr(env, 0, True)
            elif y < 0.58:
                out += self.sizeof(env) + [SP, ("*", "op:bin"), SP] + self.expr(env, 0, True)
            else:
                out += self.expr(env, depth)
        out.append((")", "punct"))
        return out

    def unary(self, env, depth, integer=True):
        r = self.r
        x = r.random()
        if x < 0.8:
            return self.atom(env, depth, integer)
        op = r.choice(["-", "!", "~", "+", "++", "--"])
        self.feats.add("unary" + op)
        if op in ("++", "--"):
            if not env.ints:
                return self.atom(env, depth, integer)
            return [(op, "op:incdec"), (r.choice(env.ints), "id:var")]
        return [(op, "op:un")] + self.atom(env, depth - 1, True if op == "~" else integer)

    def expr(self, env, depth=2, integer=False):
        r = self.r
        if depth <= 0 or r.random() < 0.45:
            return self.unary(env, depth, integer)
        op = r.choice(BIN if not integer else BIN_ARITH + BIN_INT + BIN_CMP)
        intop = op in BIN_INT
        self.feats.add("bin" + op)
        return self.expr(env, depth - 1, integer or intop) + [SP, (op, "op:bin"), SP] + self.unary(env, depth - 1, integer or intop)

    # ------------------------------------------------------------ systematic operator/operand walk
    OPERAND_KINDS = ["var", "int", "char", "call", "index", "member", "arrow", "paren", "cast", "sizeof", "deref",
                     "neg", "not", "preinc", "addr_cmp", "float", "null_cmp"]
    UN_OPS = ["-", "+", "!", "~", "*", "&", "++", "--"]
    UN_CTX = ["assign", "bin+", "bin&&", "bin||", "bin==", "paren", "arg", "arg2", "return", "index", "cast",
              "bin<<", "bin*", "cond"]

    def operand(self, env, kind, integer=True):
        r = self.r
        v = self.var(env, True)
        if kind == "var":
            return v
        if kind == "int":
            return [self.int_const()]
        if kind == "char":
            return [self.char_const()]
        if kind == "float":
            return [self.float_const()] if not integer else [self.int_const()]
        if kind == "call":
            return [(r.choice(env.funcs), "id:func"), ("(", "punct")] + v + [(")", "punct")]
        if kind == "index" and env.ptrs:
            return [(r.choice(env.ptrs), "id:var"), ("[", "punct")] + v + [("]", "punct")]
        if kind == "member" and env.structs:
            return [(r.choice(env.structs), "id:var"), (".", "op:member"), (self.member(), "id:member")]
        if kind == "arrow" and env.sptrs:
            return [(r.choice(env.sptrs), "id:var"), ("->", "op:member"), (self.member(), "id:member")]
        if kind == "paren":
            return [("(", "punct")] + v + [SP, ("+", "op:bin"), SP, self.int_const(), (")", "punct")]
        if kind == "cast":
            return [("(", "punct"), ("int", "type"), (")", "punct:cast")] + v
        if kind == "sizeof":
            return [("sizeof", "kw"), ("(", "punct"), ("int", "type"), (")", "punct")]
        if kind == "deref" and env.ptrs:
            return [("*", "op:un"), (r.choice(env.ptrs), "id:var")]
        if kind == "neg":
            return [("-", "op:un")] + v
        if kind == "not":
            return [("!", "op:un")] + v
        if kind == "preinc" and env.ints:
            return [("++", "op:incdec"), (r.choice(env.ints), "id:var")]
        return v

    def n_walk(self):
        return len(BIN) * len(self.OPERAND_KINDS) ** 2 + len(self.UN_OPS) * len(self.OPERAND_KINDS) * len(self.UN_CTX)

    def walk_stmt(self, env, k):
        """k-th item of the systematic (operator x operand kind x context) walk,
        as the segments of an expression statement `v = ...;` / `return (...)`;
        None if the combination is not valid C for the available variables"""
        nb = len(BIN) * len(self.OPERAND_KINDS) ** 2
        k %= self.n_walk()
        if not env.ints:
            return None
        lv = [(self.r.choice(env.ints), "id:var")]
        K = self.OPERAND_KINDS
        if k < nb:
            op = BIN[k % len(BIN)]
            k //= len(BIN)
            lk, rk = K[k % len(K)], K[k // len(K)]
            integer = op in BIN_INT
            if integer and "float" in (lk, rk):
                return None
            segs = self.operand(env, lk, integer) + [SP, (op, "op:bin"), SP] + self.operand(env, rk, integer)
            self.feats.add("walk:bin")
            return lv + [SP, ("=", "op:assign"), SP] + segs + [(";", "punct")]
        k -= nb
        op = self.UN_OPS[k % len(self.UN_OPS)]
        k //= len(self.UN_OPS)
        ok, ctx = K[k % len(K)], self.UN_CTX[k // len(K)]
        # operand validity for the unary operator
        if op == "*":
            if not env.ptrs:
                return None
            operand = {"var": [(self.r.choice(env.ptrs), "id:var")],
                       "paren": [("(", "punct"), (self.r.choice(env.ptrs), "id:var"), SP, ("+", "op:bin"), SP,
                                 self.int_const(), (")", "punct")],
                       "cast": [("(", "punct"), ("int", "type"), SP, ("*", "op:ptr"), (")", "punct:cast"),
                                (self.r.choice(env.ptrs), "id:var")],
                       "preinc": [("++", "op:incdec"), (self.r.choice(env.ptrs), "id:var")],
                       }.get(ok)
        elif op == "&":
            operand = {"var": self.operand(env, "var"), "index": self.operand(env, "index") if env.ptrs else None,
                       "member": self.operand(env, "member") if env.structs else None,
                       "arrow": self.operand(env, "arrow") if env.sptrs else None}.get(ok)
            if operand is not None:
                # &x is a pointer: compare it so that the statement stays integer-valued
                operand = operand + [SP, ("!=", "op:bin"), SP, ("NULL", "kw")]
        elif op in ("++", "--"):
            operand = {"var": self.operand(env, "var") if env.ints else None,
                       "index": self.operand(env, "index") if env.ptrs else None,
                       "member": self.operand(env, "member") if env.structs else None,
                       "arrow": self.operand(env, "arrow") if env.sptrs else None,
                       "deref": self.operand(env, "deref") if env.ptrs else None,
                       "paren": ([("(", "punct"), ("*", "op:un"), (self.r.choice(env.ptrs), "id:var"), (")", "punct")]
                                 if env.ptrs else None)}.get(ok)
            if operand is not None and operand[0][1] != "id:var" and ok == "var":
                operand = None
        else:
            if ok in ("addr_cmp", "null_cmp"):
                return None
            if ok == "float" and op in ("~",):
                return None
            if ok in ("neg", "not", "preinc") and op in ("-", "+") and ok == "neg":
                # `- -a` / `+ -a`: two signs in a row need care (`--a` would be a decrement)
                return None
            operand = self.operand(env, ok, integer=(op == "~"))
            if ok == "preinc" and op in ("+", "-"):
                return None       # `+++a`, `-++a`... munching makes these ambiguous; `-++a` is fine but rare
        if operand is None:
            return None
        cls = "op:incdec" if op in ("++", "--") else "op:un"
        u = [(op, cls)] + operand
        v = self.var(env, True)
        f = (self.r.choice(env.funcs), "id:func")
        self.feats.add("walk:un")
        if ctx == "assign":
            e = u
        elif ctx.startswith("bin"):
            e = v + [SP, (ctx[3:], "op:bin"), SP] + u
        elif ctx == "paren":
            e = [("(", "punct")] + u + [(")", "punct")]
        elif ctx == "arg":
            e = [f, ("(", "punct")] + u + [(")", "punct")]
        elif ctx == "arg2":
            e = [f, ("(", "punct")] + v + [(",", "op:comma"), SP] + u + [(")", "punct")]
        elif ctx == "return":
            if env.void:
                return None
            return [("return", "kw"), SP, ("(", "punct")] + u + [(")", "punct"), (";", "punct")]
        elif ctx == "index":
            if not env.ptrs or op in ("&",):
                return None
            e = [(self.r.choice(env.ptrs), "id:var"), ("[", "punct")] + u + [("]", "punct")]
        elif ctx == "cast":
            e = [("(", "punct"), ("int", "type"), (")", "punct:cast")] + u
        elif ctx == "cond":
            return ("cond", u)
        else:
            return None
        return lv + [SP, ("=", "op:assign"), SP] + e + [(";", "punct")]

    # ------------------------------------------------------------ statements
    def lvalue(self, env):
        r = self.r
        x = r.random()
        if x < 0.55 and env.ints:
            return [(r.choice(env.ints), "id:var")]
        if x < 0.7 and env.ptrs:
            return [(r.choice(env.ptrs), "id:var"), ("[", "punct")] + self.expr(env, 0, True) + [("]", "punct")]
        if x < 0.8 and env.structs:
            return [(r.choice(env.structs), "id:var"), (".", "op:member"), (self.member(), "id:member")]
        if x < 0.9 and env.sptrs:
            return [(r.choice(env.sptrs), "id:var"), ("->", "op:member"), (self.member(), "id:member")]
        if env.ptrs:
            return [("*", "op:un"), (r.choice(env.ptrs), "id:var")]
        if env.ints:
            return [(r.choice(env.ints), "id:var")]
        return None

    def fits(self, indent, segs, limit=80):
        return vis_width("\t" * indent + text(segs)) <= limit

    def ret_stmt(self, env):
        if env.void:
            return [("return", "kw"), SP, (";", "punct")]
        return [("return", "kw"), SP, ("(", "punct"), self.int_const(), (")", "punct"), (";", "punct")]

    def simple_stmt(self, env, in_loop, indent=1):
        for _ in range(50):
            s = self._simple_stmt(env, in_loop)
            if s is not None and self.fits(indent, s):
                return s
        return self.ret_stmt(env)

    def _simple_stmt(self, env, in_loop):
        r = self.r
        x = r.random()
        if x < 0.12:
            self.cyc += 1
            w = self.walk_stmt(env, self.cyc * 104729)
            if w is not None and not (isinstance(w, tuple) and w[0] == "cond"):
                self.n_planted += 1
                return w
        if x < 0.4:
            lv = self.lvalue(env)
            if lv is None:
                return None
            op = r.choice(["=", "=", "="] + ASSIGN_OPS)
            self.feats.add("assign" + op)
            integer = op in ("%=", "&=", "|=", "^=", "<<=", ">>=")
            return lv + [SP, (op, "op:assign"), SP] + self.expr(env, 2, integer) + [(";", "punct")]
        if x < 0.5 and env.ints:
            self.feats.add("incdec")
            v = (r.choice(env.ints), "id:var")
            if r.random() < 0.5:
                return [v, (r.choice(["++", "--"]), "op:incdec"), (";", "punct")]
            return [(r.choice(["++", "--"]), "op:incdec"), v, (";", "punct")]
        if x < 0.72:
            self.feats.add("callstmt")
            return self.call(env, 1) + [(";", "punct")]
        if x < 0.75 and env.ints:
            self.feats.add("void_cast")
            return [("(", "punct"), ("void", "type"), (")", "punct:cast"), (r.choice(env.ints), "id:var"), (";", "punct")]
        if x < 0.9:
            self.feats.add("return")
            if env.void:
                return [("return", "kw"), SP, (";", "punct")]
            return [("return", "kw"), SP, ("(", "punct")] + self.expr(env, 2) + [(")", "punct"), (";", "punct")]
        if x < 0.95 and env.ptrs:
            self.feats.add("ptrassign")
            p = (r.choice(env.ptrs), "id:var")
            k = r.randrange(6)
            if k == 0:
                return [p, SP, ("=", "op:assign"), SP, ("NULL", "kw"), (";", "punct")]
            if k == 1:
                return [p, SP, ("=", "op:assign"), SP, ("(", "punct"), ("void", "type"), SP, ("*", "op:ptr"),
                        (")", "punct:cast"), ("0", "const:int"), (";", "punct")]
            if k == 2:
                return [p, ("++", "op:incdec"), (";", "punct")]
            if k == 3:
                return [("*", "op:un"), p, ("++", "op:incdec"), SP, ("=", "op:assign"), SP, ("0", "const:int"), (";", "punct")]
            if k == 4:
                return [p, SP, ("=", "op:assign"), SP, p, SP, ("+", "op:bin"), SP, ("1", "const:int"), (";", "punct")]
            return [p, SP, ("=", "op:assign"), SP, (r.choice(env.funcs), "id:func"), ("(", "punct"), ("sizeof", "kw"),
                    ("(", "punct"), ("int", "type"), (")", "punct"), SP, ("*", "op:bin"), SP, self.int_const(),
                    (")", "punct"), (";", "punct")]
        if in_loop:
            self.feats.add("brk")
            return [(r.choice(["break", "continue"]), "kw"), SP, (";", "punct")]
        lv = self.lvalue(env)
        if lv is None:
            return None
        return lv + [SP, ("=", "op:assign"), SP] + self.expr(env, 1) + [(";", "punct")]

    def cond(self, env, indent, kw, depth=2):
        for _ in range(50):
            c = None
            if self.r.random() < 0.1:
                self.cyc += 1
                w = self.walk_stmt(env, self.n_walk() - 1 - (self.cyc * 31) % (len(self.UN_OPS) * len(self.OPERAND_KINDS)))
                if isinstance(w, tuple) and w[0] == "cond":
                    c = w[1]
                    self.n_planted += 1
            if c is None:
                c = self.expr(env, depth)
            if self.fits(indent, [(kw + " (", "x")] + c + [(")", "x")]):
                return c
        return [("1", "const:int")]

    def ctrl_line(self, kw, cond, indent, func):
        segs = [IND(indent)]
        if kw == "else if":
            segs += [("else", "kw"), SP, ("if", "kw")]
        else:
            segs += [(kw, "kw")]
        if cond is not None:
            segs += [SP, ("(", "punct")] + cond + [(")", "punct")]
        return Line("ctrl", segs, indent, func, kw=kw)

    def stmt_line(self, segs, indent, func):
        return Line("stmt", [IND(indent)] + segs, indent, func)

    def maybe_split(self, line):
        """sometimes split a statement over two lines at a binary operator
        (operator leads the continuation line, which is indented one more)"""
        if self.r.random() > 0.06 or line.kind != "stmt":
            return line
        segs = line.segs
        cands = [i for i in range(2, len(segs) - 2) if segs[i][1] == "op:bin" and segs[i - 1] == SP and segs[i + 1] == SP
                 and segs[i][0] in ("+", "-", "&&", "||", "*", "/") and _depth_at(segs, i) == 0]
        if not cands:
            return line
        i = self.r.choice(cands)
        new = segs[:i - 1] + [("\n", "ws:nl"), IND(line.depth + 1)] + segs[i:]
        l2 = line.copy()
        l2.segs = new
        l2.meta["split"] = True
        self.feats.add("split")
        return l2

    def block(self, env, indent, budget, in_loop, depth, func):
        """list of Lines using <= budget physical lines"""
        r = self.r
        lines = []

        def used():
            return sum(l.text().count("\n") + 1 for l in lines)
        n = r.randint(1, 4)
        for _ in range(n):
            if budget - used() <= 0:
                break
            x = r.random()
            if x < 0.6 or depth <= 0 or budget - used() < 4:
                l = self.stmt_line(self.simple_stmt(env, in_loop, indent), indent, func)
                if budget - used() >= 2:
                    l = self.maybe_split(l)
                lines.append(l)
                continue
            kw = r.choice(["if", "if", "while"])
            self.feats.add(kw)
            head = self.ctrl_line(kw, self.cond(env, indent, kw), indent, func)
            rem = budget - used()
            loop = in_loop or kw == "while"
            if r.random() < 0.5 and rem >= 5:
                self.feats.add("braces")
                body = self.block(env, indent + 1, min(rem - 3, 6), loop, depth - 1, func)
                lines += [head, Line("brace_open", [IND(indent), ("{", "punct")], indent, func)] + body + [
                    Line("brace_close", [IND(indent), ("}", "punct")], indent, func)]
            else:
                self.feats.add("nobraces")
                if r.random() < 0.25 and depth > 1 and rem >= 4:
                    self.feats.add("cs_in_cs")
                    # a chain of 2..4 brace-less control structures closed by one instruction
                    chain = r.choice([1, 1, 2, 3]) if rem >= 6 else 1
                    lines.append(head)
                    lp = loop
                    for c in range(chain):
                        ikw = r.choice(["if", "while"])
                        lp = lp or ikw == "while"
                        lines.append(self.ctrl_line(ikw, self.cond(env, indent + 1 + c, ikw, 1), indent + 1 + c, func))
                    if chain > 1:
                        self.feats.add("cs_chain_%d" % (chain + 1))
                    lines.append(self.stmt_line(self.simple_stmt(env, lp, indent + 1 + chain), indent + 1 + chain, func))
                else:
                    lines += [head, self.stmt_line(self.simple_stmt(env, loop, indent + 1), indent + 1, func)]
            if kw == "if":
                rem = budget - used()
                while r.random() < 0.35 and rem >= 3:
                    self.feats.add("elseif")
                    lines += [self.ctrl_line("else if", self.cond(env, indent, "else if", 1), indent, func),
                              self.stmt_line(self.simple_stmt(env, in_loop, indent + 1), indent + 1, func)]
                    rem = budget - used()
                if r.random() < 0.4 and rem >= 5:
                    self.feats.add("else")
                    if r.random() < 0.5:
                        body = self.block(env, indent + 1, min(rem - 3, 4), in_loop, depth - 1, func)
                        lines += [self.ctrl_line("else", None, indent, func),
                                  Line("brace_open", [IND(indent), ("{", "punct")], indent, func)] + body + [
                            Line("brace_close", [IND(indent), ("}", "punct")], indent, func)]
                    else:
                        lines += [self.ctrl_line("else", None, indent, func),
                                  self.stmt_line(self.simple_stmt(env, in_loop, indent + 1), indent + 1, func)]
        return lines

    # ------------------------------------------------------------ declarations
    def struct_type(self):
        r = self.r
        pool = list(self.types) + ["struct " + t for t in self.tags]
        if pool and r.random() < 0.7:
            return r.choice(pool)
        if r.random() < 0.6:
            t = self.ident("t_", 1, 6)
            self.types.append(t)
            return t
        t = self.ident("s_", 1, 6)
        self.tags.append(t)
        return "struct " + t

    def new_var(self, allow_array=True):
        """(type, stars, name, arr_segs, klass)"""
        r = self.r
        x = r.random()
        name = self.ident()
        if x < 0.45:
            return (r.choice(INTEGER_TYPES), "", name, [], "ints")
        if x < 0.52:
            return (r.choice(["float", "double"]), "", name, [], "flts")
        if x < 0.7:
            return (r.choice(INTEGER_TYPES + ["void"]), "*" * r.choice([1, 1, 2]), name, [], "ptrs")
        if x < 0.8:
            return (self.struct_type(), "", name, [], "structs")
        if x < 0.92 or not allow_array:
            return (self.struct_type(), "*", name, [], "sptrs")
        if r.random() < 0.3:
            dim = (r.choice(["BUFFER_SIZE", "MAX_LEN", "N"]), "id:macro")
        else:
            dim = (r.choice(["2", "10", "42", "0x10", "1024"]), "const:int")
        return (r.choice(INTEGER_TYPES), "", name, [("[", "punct"), dim, ("]", "punct")], "ptrs")

    def param_segs(self, t, stars, name):
        segs = type_segs(t) + [SP]
        if stars:
            segs.append((stars, "op:ptr"))
        segs.append((name, "id:param"))
        return segs

    def fptr_param_segs(self, name):
        r = self.r
        rt = r.choice(["int", "void", "char", "size_t"])
        segs = type_segs(rt) + [SP, ("(", "punct"), ("*", "op:ptr"), (name, "id:param"), (")", "punct"), ("(", "punct")]
        n = r.randint(0, 3)
        if n == 0:
            segs.append(("void", "type"))
        for k in range(n):
            if k:
                segs += [(",", "op:comma"), SP]
            t = r.choice(["int", "char", "void", "long", "size_t"])
            segs += type_segs(t)
            if t == "void" or r.random() < 0.3:
                segs += [SP, ("*", "op:ptr")]
        segs.append((")", "punct"))
        return segs

    def function(self, idx, static=False, nparams=None, nvars=None, body_lines=None, name=None):
        r = self.r
        for _ in range(200):
            rtype = r.choice(["int", "void", "char", "long", "unsigned int", "size_t", "unsigned long long"] + self.types[:1]
                             + ["struct " + t for t in self.tags[:1]])
            ptr = "*" * (r.random() < 0.3) if rtype != "void" else r.choice(["", "*"])
            fname = name or self.ident("ft_" if r.random() < 0.5 else "", 2, 9, hostile=0.2)
            npar = r.randint(0, 4) if nparams is None else nparams
            env = Env(rtype == "void" and not ptr)
            env.funcs = [self.ident("ft_", 2, 6) for _ in range(2)] + [r.choice(["printf", "malloc", "write", "strlen", "free"])]
            params = []
            pv = []
            for _ in range(npar):
                if r.random() < 0.08:
                    self.feats.add("fptr_param")
                    n = self.ident(hostile=0.2)
                    params.append(self.fptr_param_segs(n))
                    pv.append(("fptrs", n))
                    continue
                t, st, n, arr, k = self.new_var(allow_array=False)
                if st and r.random() < 0.2:
                    self.feats.add("const_param")
                    ps = [("const", "kw"), SP] + self.param_segs(t, st, n) if r.random() < 0.5 else \
                        type_segs(t) + [SP, ("const", "kw"), SP, (st, "op:ptr"), (n, "id:param")]
                    params.append(ps)
                else:
                    params.append(self.param_segs(t, st, n))
                pv.append((k, n))
            head = []
            if static:
                head += [("static", "kw"), SP]
            head += type_segs(rtype) + [TAB(1)]
            if ptr:
                head.append((ptr, "op:ptr"))
            head += [(fname, "id:func"), ("(", "punct")]
            if params:
                for k, p in enumerate(params):
                    if k:
                        head += [(",", "op:comma"), SP]
                    head += p
            else:
                head.append(("void", "type"))
            head.append((")", "punct"))
            if W(head) <= 80:
                break
            if name is None:
                self.used.discard(fname)
        else:
            raise RuntimeError("function head")
        for k, n in pv:
            getattr(env, k).append(n)
        nv = r.randint(0, 5) if nvars is None else nvars
        decls = []
        for _ in range(nv):
            t, st, n, arr, k = self.new_var()
            q = ""
            if not arr and k in ("ints", "ptrs") and t != "void" and r.random() < 0.12:
                q = r.choice(["static", "const"])
                self.feats.add("local_" + q)
            decls.append((q, t, st, n, arr))
            getattr(env, k).append(n)
        line_head = head
        if "wrapped_head" not in self.avoid and self.x.random() < 0.15:
            # the parameter list continues on a second line (after a comma of the function's own list)
            commas = [i for i, (t, c) in enumerate(head) if c == "op:comma" and _depth_at(head, i) == 1 and head[i + 1] == SP]
            if commas:
                i = self.x.choice(commas)
                line_head = head[:i + 1] + [("\n", "ws:nl"), TAB(self.x.choice([2, 2, 3, 4]))] + head[i + 2:]
                self.feats.add("wrapped_head")
        lines = [Line("fhead", line_head, 0, idx, fname=fname, nparams=npar, static=static),
                 Line("fopen", [("{", "punct")], 0, idx)]
        if decls:
            end = max(vis_width("\t" + (q + " " if q else "") + t) for q, t, _, _, _ in decls)
            col = (end // 4 + 1) * 4
            for q, t, st, n, arr in decls:
                segs = [IND(1)] + ([(q, "kw"), SP] if q else []) + type_segs(t)
                segs.append(TAB(pad_tabs(vis_width("\t" + (q + " " if q else "") + t), col)))
                if st:
                    segs.append((st, "op:ptr"))
                segs.append((n, "id:var"))
                segs += arr
                if q:
                    init = ("NULL", "kw") if st else (self.int_const() if t not in ("float", "double") else self.float_const())
                    if st and t == "char" and len(st) == 1 and r.random() < 0.5:
                        init = self.str_const()
                    segs += [SP, ("=", "op:assign"), SP, init]
                segs.append((";", "punct"))
                if vis_width("".join(x for x, _ in segs)) > 80:
                    segs = [x for x in segs]
                lines.append(Line("decl", segs, 1, idx, first=(len(lines) == 2), ptr=bool(st), arr=bool(arr), col=col,
                                  qualified=bool(q)))
            lines.append(Line("blank_in", [], 0, idx))
        budget = 25 - (len(decls) + 1 if decls else 0)
        if body_lines is not None:
            budget = min(budget, body_lines)
            want = budget
        else:
            want = min(budget, r.randint(1, 22))
        body = self.block(env, 1, want, False, 3, idx)
        if "empty_body" not in self.avoid and self.x.random() < 0.15:
            # a loop whose body is the empty statement
            c = [i for i in range(len(body) - 1) if body[i].kind == "ctrl" and body[i].meta.get("kw") == "while"
                 and body[i + 1].kind == "stmt" and body[i + 1].depth == body[i].depth + 1 and not body[i + 1].meta.get("split")]
            if c:
                i = self.x.choice(c)
                body[i + 1] = Line("stmt_empty", [IND(body[i].depth + 1), (";", "punct")], body[i].depth + 1, idx)
                self.feats.add("empty_body")
        lines += body
        lines.append(Line("fclose", [("}", "punct")], 0, idx))
        return lines, head, env

    def comment_line(self, kind=None):
        r = self.r
        kind = kind or r.choice(["block", "line", "multi"])
        words = ["note", "todo", "the", "list", "of", "things", "x", "y", "42", "see", "below", "int", "if"]
        txt = " ".join(r.choice(words) for _ in range(r.randint(1, 6)))
        if kind == "block":
            return Line("comment", [("/* " + txt + " */", "comment:block")], 0, -1)
        if kind == "line":
            return Line("comment", [("// " + txt, "comment:line")], 0, -1)
        txt2 = " ".join(r.choice(words) for _ in range(r.randint(1, 6)))
        return Line("comment", [("/*\n** " + txt + "\n** " + txt2 + "\n*/", "comment:multi")], 0, -1)

    def header_lines(self, fname):
        r = self.r
        login = "".join(r.choice(string.ascii_lowercase) for _ in range(r.randint(3, 8)))
        return [Line("hdr", [(l, "hdr")], 0, -1) for l in header42_lines(
            fname, login=login, mail=login + "@student.42.fr",
            created="20%02d/%02d/%02d %02d:%02d:%02d" % (r.randint(0, 99), r.randint(1, 12), r.randint(1, 28), r.randint(0, 23),
                                                         r.randint(0, 59), r.randint(0, 59)))]

    def c_file(self, fname="test.c", nfuncs=None, header=True, comments=True):
        r = self.r
        L = []
        if header:
            L += self.header_lines(fname)
            L.append(Line("blank", []))
        if r.random() < 0.6:
            self.feats.add("include")
            for _ in range(r.randint(1, 3)):
                n = self.ident(lo=2, hi=6, hostile=0.1)
                path = ('"%s.h"' % n) if r.random() < 0.5 else ("<%s.h>" % n)
                L.append(Line("pp_include", [("#include", "pp"), SP, (path, "pp:path")]))
            L.append(Line("blank", []))
        if r.random() < 0.3:
            self.feats.add("define")
            for _ in range(r.randint(1, 2)):
                L.append(Line("pp_define", [("#define", "pp"), SP, (self.macro(), "id:macro"), SP, self.defval()]))
            L.append(Line("blank", []))
        if comments and r.random() < 0.25:
            self.feats.add("comment_top")
            L.append(self.comment_line())
            L.append(Line("blank", []))
        if r.random() < 0.2:
            self.feats.add("c_ifdef")
            m = self.macro()
            L += [Line("pp_ifdef", [("#ifdef", "pp"), SP, (self.macro(), "id:macro")]),
                  Line("pp_define", [("#", "pp"), SP, ("define", "pp"), SP, (m, "id:macro"), SP, self.int_const()], 1),
                  Line("pp_else", [("#else", "pp")]),
                  Line("pp_define", [("#", "pp"), SP, ("define", "pp"), SP, (m, "id:macro"), SP, self.int_const()], 1),
                  Line("pp_endif", [("#endif", "pp")]),
                  Line("blank", [])]
        if r.random() < 0.35:
            self.feats.add("global")
            gl = []
            for _ in range(r.choice([1, 1, 2, 3])):
                q = r.choice(["static", "const", "static const", ""])
                t = r.choice(["int", "char", "long", "unsigned int", "unsigned long long"])
                form = r.choice(["init", "init", "plain", "array", "ptr"])
                gl.append((q, t, form, self.ident("g_", 1, 6)))
            end = max(vis_width((q + " " if q else "") + t) for q, t, _, _ in gl)
            col = (end // 4 + 1) * 4
            for q, t, form, name in gl:
                left = (q + " " if q else "") + t
                segs = ([(q, "kw"), SP] if q else []) + [(t, "type"), TAB(pad_tabs(vis_width(left), col))]
                if form == "ptr":
                    segs += [("*", "op:ptr"), (name, "id:global")]
                    if q:
                        segs += [SP, ("=", "op:assign"), SP, ("NULL", "kw")]
                elif form == "array":
                    self.feats.add("global_array_init")
                    n = r.randint(1, 4)
                    segs += [(name, "id:global"), ("[", "punct"), (str(n), "const:int"), ("]", "punct"), SP, ("=", "op:assign"), SP,
                             ("{", "punct")]
                    for k in range(n):
                        if k:
                            segs += [(",", "op:comma"), SP]
                        segs.append(self.int_const())
                    segs.append(("}", "punct"))
                elif form == "plain" and "const" not in q:
                    segs += [(name, "id:global")]
                else:
                    segs += [(name, "id:global"), SP, ("=", "op:assign"), SP, self.int_const()]
                segs.append((";", "punct"))
                if comments and r.random() < 0.15 and W(segs) < 60:
                    segs += [SP, ("/* " + r.choice(["value", "the x", "n"]) + " */", "comment:block")]
                    self.feats.add("comment_eol_global")
                if W(segs) > 80:
                    k = next(i for i, sg in enumerate(segs) if sg[1] == "id:global")
                    segs = segs[:k + 1] + [SP, ("=", "op:assign"), SP, ("0", "const:int"), (";", "punct")]
                L.append(Line("global", segs))
            L.append(Line("blank", []))
        nf = r.randint(1, 5) if nfuncs is None else nfuncs
        funcs = []
        for k in range(nf):
            lines, head, env = self.function(k, static=r.random() < 0.4)
            funcs.append((lines, head))
        if r.random() < 0.3:
            # prototypes of some of the file's functions, names on one column
            chosen = [f for f in funcs if r.random() < 0.6][:3] or funcs[:1]

            def left_of(head):
                k = next(i for i, sg in enumerate(head) if sg[1] == "ws:tab")
                return head[:k], head[k + 1:]
            lefts = [text(left_of(h)[0]) for _, h in chosen]
            col = (max(vis_width(x) for x in lefts) // 4 + 1) * 4
            plines = []
            for (_, h), lt in zip(chosen, lefts):
                a, b = left_of(h)
                segs = list(a) + [TAB(pad_tabs(vis_width(lt), col))] + list(b) + [(";", "punct")]
                plines.append(segs)
            if all(W(x) <= 80 for x in plines):
                self.feats.add("proto")
                if len(plines) > 1:
                    self.feats.add("protos_aligned")
                for k, segs in enumerate(plines):
                    L.append(Line("proto", segs, 0, -1, nparams=chosen[k][0][0].meta.get("nparams"), first=(k == 0)))
                L.append(Line("blank", []))
        for k, (lines, _) in enumerate(funcs):
            if k and comments and r.random() < 0.1:
                self.feats.add("comment_between")
                L.append(self.comment_line())
            L += lines
            if k != len(funcs) - 1:
                L.append(Line("blank", []))
        p = Prog(fname, L, feats=sorted(self.feats), nfuncs=nf, header=header)
        return p

    def defval(self):
        r = self.r
        x = r.random()
        if x < 0.5:
            return self.int_const()
        if x < 0.6:
            return self.float_const()
        if x < 0.7:
            return self.char_const()
        if x < 0.85:
            return self.str_const()
        return (r.choice(["-", "+"]) + r.choice(["1", "42", "0x7f"]), "const:int")

    def h_file(self, fname="test.h", header=True, comments=True):
        r = self.r
        L = []
        if header:
            L += self.header_lines(fname)
            L.append(Line("blank", []))
        guard = fname.upper().replace(".", "_")
        L += [Line("pp_ifndef", [("#ifndef", "pp"), SP, (guard, "id:guard")]),
              Line("pp_define_guard", [("#", "pp"), SP, ("define", "pp"), SP, (guard, "id:guard")]),
              Line("blank", [])]
        if r.random() < 0.7:
            self.feats.add("h_include")
            for _ in range(r.randint(1, 3)):
                n = self.ident(lo=2, hi=6, hostile=0.1)
                path = ('"%s.h"' % n) if r.random() < 0.5 else ("<%s.h>" % n)
                L.append(Line("pp_include", [("#", "pp"), SP, ("include", "pp"), SP, (path, "pp:path")], 1))
            L.append(Line("blank", []))
        if r.random() < 0.6:
            self.feats.add("h_define")
            for _ in range(r.randint(1, 3)):
                L.append(Line("pp_define", [("#", "pp"), SP, ("define", "pp"), SP, (self.macro(), "id:macro"), SP,
                                            self.defval()], 1))
            L.append(Line("blank", []))
        if r.random() < 0.3:
            self.feats.add("h_ifdef")
            m = self.macro()
            cond = r.choice([[("#", "pp"), SP, ("ifdef", "pp"), SP, (self.macro(), "id:macro")],
                             [("#", "pp"), SP, ("ifndef", "pp"), SP, (self.macro(), "id:macro")],
                             [("#", "pp"), SP, ("if", "pp"), SP, ("defined", "pp"), ("(", "punct"), (self.macro(), "id:macro"), (")", "punct"),
                              SP, ("&&", "op:bin"), SP, ("!", "op:un"), ("defined", "pp"), ("(", "punct"), (self.macro(), "id:macro"),
                              (")", "punct")]])
            L += [Line("pp_ifdef", cond, 1),
                  Line("pp_define", [("#", "pp"), ("  ", "ws:ppindent"), ("define", "pp"), SP, (m, "id:macro"), SP, self.int_const()], 2)]
            if self.x.random() < 0.35:
                self.feats.add("h_elif")
                ec = [("#", "pp"), SP, ("elif", "pp"), SP, (self.xdo(self.macro), "id:macro"), SP,
                      (self.x.choice([">", "<", "==", ">="]), "op:bin"), SP, (self.x.choice(["2", "0", "42"]), "const:int")]
                L += [Line("pp_elif", ec, 1),
                      Line("pp_define", [("#", "pp"), ("  ", "ws:ppindent"), ("define", "pp"), SP, (m, "id:macro"), SP,
                                         (self.x.choice(["3", "0x10", "7"]), "const:int")], 2)]
            L += [Line("pp_else", [("#", "pp"), SP, ("else", "pp")], 1),
                  Line("pp_define", [("#", "pp"), ("  ", "ws:ppindent"), ("define", "pp"), SP, (m, "id:macro"), SP, self.int_const()], 2),
                  Line("pp_endif", [("#", "pp"), SP, ("endif", "pp")], 1)]
            if r.random() < 0.4:
                self.feats.add("h_define_empty")
                L.append(Line("pp_define", [("#", "pp"), SP, ("define", "pp"), SP, (self.macro(), "id:macro")], 1))
            L.append(Line("blank", []))
        if comments and r.random() < 0.25:
            L.append(self.comment_line())
            L.append(Line("blank", []))
        items = []
        for _ in range(r.randint(0, 3)):
            kind = r.choice(["struct", "union", "enum"])
            tag = self.ident({"struct": "s_", "union": "u_", "enum": "e_"}[kind], 2, 6)
            plain = r.random() < 0.25
            tname = None if plain else self.ident("t_", 2, 6)
            if kind == "enum":
                members = [self.macro() for _ in range(r.randint(1, 4))]
            else:
                members = []
                for _ in range(r.randint(1, 4)):
                    x = r.random()
                    nm = self.ident(hostile=0.2)
                    if x < 0.6:
                        t = r.choice(INT_TYPES + self.types[:2])
                        members.append((t, "*" * r.choice([0, 0, 1]), nm, []))
                    elif x < 0.72:
                        members.append(("struct " + tag, "*", nm, []))         # self reference
                    elif x < 0.86:
                        t = r.choice(INTEGER_TYPES)
                        members.append((t, "", nm, [("[", "punct"), (r.choice(["2", "8", "64"]), "const:int"), ("]", "punct")]))
                    else:
                        members.append((r.choice(["void", "int"]), "(*", nm, [(")", "punct"), ("(", "punct"), (r.choice(["int", "void *", "char *"]), "type"),
                                                                              (")", "punct")]))
                        self.feats.add("h_fptr_member")
            x = self.x
            if kind == "enum":
                if x.random() < 0.35:
                    # explicit values: constants, shifts of the previous enumerator, parenthesised expressions
                    self.feats.add("h_enum_values")
                    vals = []
                    for i, m in enumerate(members):
                        y = x.random()
                        if i and y < 0.3:
                            v = [(members[i - 1], "id:enumconst"), SP, ("<<", "op:bin"), SP, ("1", "const:int")]
                        elif i and y < 0.45:
                            v = [("(", "punct"), (members[i - 1], "id:enumconst"), SP, ("|", "op:bin"), SP,
                                 (x.choice(["4", "0x10", "8"]), "const:int"), (")", "punct")]
                        elif y < 0.85:
                            v = [(x.choice(["0", "1", "42", "0x7f", "'a'", "-1"]), "const:int")]
                            if v[0][0] == "-1":
                                v = [("-", "op:un"), ("1", "const:int")]
                        else:
                            v = None
                        vals.append(v)
                    members = list(zip(members, vals))
            else:
                for i, mb in enumerate(members):
                    t, st, nm, tail = mb
                    if not st and not tail and t in ("int", "unsigned int", "unsigned char", "unsigned short") and x.random() < 0.2:
                        self.feats.add("h_bitfield")
                        members[i] = (t, st, nm, [SP, (":", "punct:bitfield"), SP, (x.choice(["1", "3", "8"]), "const:int")])
                if x.random() < 0.15:
                    # a named struct / union defined inside the type, its members on the same column
                    self.feats.add("h_nested")
                    k2 = x.choice(["struct", "union"])
                    tag2 = self.xdo(self.ident, {"struct": "s_", "union": "u_"}[k2], 2, 5)
                    inner = [(x.choice(["int", "char", "long", "unsigned int"]), "*" * x.choice([0, 0, 1]),
                              self.xdo(self.ident, hostile=0.1), []) for _ in range(x.randint(1, 3))]
                    members.insert(x.randint(0, len(members)), ("@" + k2 + " " + tag2, "", self.xdo(self.ident, hostile=0.1), inner))
            items.append((kind, tag, tname, members))
            if tname:
                self.types.append(tname)
            else:
                self.feats.add("h_plain_" + kind)
                self.tags.append(tag) if kind == "struct" else None
        externs = []
        if r.random() < 0.2:
            self.feats.add("h_extern")
            for _ in range(r.randint(1, 2)):
                externs.append((r.choice(["int", "char", "unsigned int"]), self.ident("g_", 1, 6)))
        protos = []
        for _ in range(r.randint(0, 4)):
            rtype = r.choice(["int", "void", "char", "long", "unsigned int", "size_t"] + self.types[:1])
            ptr = "*" * r.choice([0, 0, 1, 2]) if rtype != "void" else r.choice(["", "*"])
            params = []
            for _ in range(r.randint(0, 4)):
                t = r.choice(INT_TYPES + self.types[:2])
                params.append(self.param_segs(t, "*" * r.choice([0, 0, 1]), self.ident(hostile=0.2)))
            protos.append((rtype, ptr, self.ident("ft_", 2, 8), params))
        simple = []
        x = self.x
        if x.random() < 0.3:
            # plain typedefs: an alias, a function-pointer type, an array type
            for _ in range(x.randint(1, 2)):
                form = x.choice(["alias", "fptr", "array"])
                self.feats.add("h_typedef_" + form)
                bt = x.choice(["int", "char", "unsigned int", "long", "void"] if form == "fptr" else
                              ["int", "char", "unsigned int", "long", "unsigned long long"])
                simple.append((form, bt, self.xdo(self.ident, "t_", 2, 6)))
        heads = ["typedef %s %s" % (k, tag) for (k, tag, tn, _) in items if tn] + [p[0] for p in protos] + \
                ["extern " + t for t, _ in externs] + ["typedef " + bt for _, bt, _ in simple]
        col = (max(len(h) for h in heads) // 4 + 1) * 4 if heads else 4
        fidx = 0
        for t, n in externs:
            L.append(Line("global", [("extern", "kw"), SP, (t, "type"), TAB(pad_tabs(len("extern " + t), col)), (n, "id:global"),
                                     (";", "punct")]))
        if externs:
            L.append(Line("blank", []))
        for form, bt, tn in simple:
            segs = [("typedef", "kw"), SP, (bt, "type"), TAB(pad_tabs(len("typedef " + bt), col))]
            if form == "alias":
                segs += [(tn, "id:type")]
            elif form == "array":
                segs += [(tn, "id:type"), ("[", "punct"), (x.choice(["2", "4", "16"]), "const:int"), ("]", "punct")]
            else:
                segs += [("(", "punct"), ("*", "op:ptr"), (tn, "id:type"), (")", "punct"), ("(", "punct")]
                n = x.randint(0, 2)
                if n == 0:
                    segs.append(("void", "type"))
                for k in range(n):
                    if k:
                        segs += [(",", "op:comma"), SP]
                    pt = x.choice(["int", "char", "void", "long"])
                    segs += self.param_segs(pt, "*" * (1 if pt == "void" else x.choice([0, 1])), self.xdo(self.ident, hostile=0.1))
                segs.append((")", "punct"))
            segs.append((";", "punct"))
            L.append(Line("td_simple", segs, 0, -1))
        if simple:
            L.append(Line("blank", []))
            self.types += [tn for form, _, tn in simple if form == "alias"]
        for (kind, tag, tname, members) in items:
            if tname:
                L.append(Line("td_head", [("typedef", "kw"), SP, (kind, "kw"), SP, (tag, "id:tag")], 0, -1, utype=kind))
            else:
                L.append(Line("td_head", [(kind, "kw"), SP, (tag, "id:tag")], 0, -1, utype=kind, plain=True))
            L.append(Line("td_open", [("{", "punct")]))
            if kind == "enum":
                for i, m in enumerate(members):
                    val = None
                    if isinstance(m, tuple):
                        m, val = m
                    segs = [IND(1), (m, "id:enumconst")]
                    if val:
                        segs += [SP, ("=", "op:assign"), SP] + val
                    if i < len(members) - 1:
                        segs.append((",", "op:comma"))
                    L.append(Line("td_enum_member", segs, 1))
            else:
                def mwidth(t, tail):
                    if t.startswith("@"):
                        return max([vis_width("\t\t" + t2) for t2, _, _, _ in tail] + [vis_width("\t}")])
                    return vis_width("\t" + t)
                mcol = (max(mwidth(t, tail) for t, _, _, tail in members) // 4 + 1) * 4
                mcol = max(mcol, col)
                for t, st, n, tail in members:
                    if t.startswith("@"):
                        k2, tag2 = t[1:].split(" ")
                        L.append(Line("td_nested_head", [IND(1), (k2, "kw"), SP, (tag2, "id:tag")], 1))
                        L.append(Line("td_nested_open", [IND(1), ("{", "punct")], 1))
                        for t2, st2, n2, _ in tail:
                            segs = [IND(2)] + type_segs(t2) + [TAB(pad_tabs(vis_width("\t\t" + t2), mcol))]
                            if st2:
                                segs.append((st2, "op:ptr"))
                            L.append(Line("td_nested_member", segs + [(n2, "id:member"), (";", "punct")], 2))
                        L.append(Line("td_nested_close", [IND(1), ("}", "punct"), TAB(pad_tabs(vis_width("\t}"), mcol)), (n, "id:member"),
                                                          (";", "punct")], 1))
                        continue
                    segs = [IND(1)] + type_segs(t) + [TAB(pad_tabs(vis_width("\t" + t), mcol))]
                    if st == "(*":
                        segs += [("(", "punct"), ("*", "op:ptr")]
                    elif st:
                        segs.append((st, "op:ptr"))
                    segs += [(n, "id:member")] + tail + [(";", "punct")]
                    L.append(Line("td_member", segs, 1))
            if tname:
                close = [("}", "punct"), TAB(pad_tabs(1, col))]
                if kind != "enum" and r.random() < 0.15:
                    self.feats.add("h_typedef_pointer_name")
                    close.append(("*", "op:ptr"))
                L.append(Line("td_close", close + [(tname, "id:type"), (";", "punct")], 0, -1))
            else:
                L.append(Line("td_close", [("}", "punct"), (";", "punct")], 0, -1))
            L.append(Line("blank", []))
        for rt, ptr, n, params in protos:
            def build(params):
                segs = type_segs(rt) + [TAB(pad_tabs(len(rt), col))]
                if ptr:
                    segs.append((ptr, "op:ptr"))
                segs += [(n, "id:func"), ("(", "punct")]
                if params:
                    for k, p in enumerate(params):
                        if k:
                            segs += [(",", "op:comma"), SP]
                        segs += p
                else:
                    segs.append(("void", "type"))
                segs += [(")", "punct"), (";", "punct")]
                return segs
            segs = build(params)
            if W(segs) > 80:
                segs = build([])
                params = []
            L.append(Line("proto", segs, 0, -1, nparams=len(params), first=(fidx == 0)))
            fidx += 1
        if protos:
            L.append(Line("blank", []))
        L.append(Line("pp_endif", [("#endif", "pp")]))
        return Prog(fname, L, feats=sorted(self.feats), header=header, guard=guard)


def _depth_at(segs, i):
    d = 0
    for t, c in segs[:i]:
        if c.startswith("punct"):
            if t in "([":
                d += 1
            elif t in ")]":
                d -= 1
    return d


def make(seed, kind="c", name=None, header=True, cyc=None, **kw):
    g = Gen(seed, cyc=(cyc if cyc is not None else (zlib.crc32(str(seed).encode()) & 0xffff)))
    if kind == "c":
        p = g.c_file(name or "test.c", header=header, **kw)
    else:
        p = g.h_file(name or "test.h", header=header, **kw)
    p.meta["planted"] = g.n_planted
    if g.x.random() < 0.12:
        # one comment of the file holds a character from outside ASCII or one str.splitlines() takes for a line end
        cs = [(l, j) for l in p.lines if l.kind != "hdr" for j, (t, c) in enumerate(l.segs) if c.startswith("comment") and len(t) > 6]
        if cs:
            l, j = g.x.choice(cs)
            t, c = l.segs[j]
            k = g.x.randint(3, len(t) - 3)
            if t[k - 1] not in "*/\\\n" and t[k] not in "*/\n":
                l.segs[j] = (t[:k] + g.x.choice(["\x0c", "\x0b", "\x85", "\u2028", "\u00e9", "\u20ac", "\x1c"]) + t[k:], c)
                p.meta["feats"] = sorted(set(p.meta.get("feats", [])) | {"comment_special_char"})
    if g.x.random() < 0.15:
        # a line of a multi-line comment that reads like a preprocessor directive (comment text is free)
        cs = [(l, j) for l in p.lines if l.kind != "hdr" for j, (t, c) in enumerate(l.segs) if c == "comment:multi" and t.count("\n") >= 2]
        if cs:
            l, j = g.x.choice(cs)
            t, c = l.segs[j]
            parts = t.split("\n")
            k = g.x.randint(1, len(parts) - 2)
            parts[k] = g.x.choice(["#if 0", "#ifdef DEBUG", "#ifndef X_H", "#endif", "# define X 1", "#include <a.h>", "#else", "#elif 1",
                                   "%:if 0", "??=ifdef OLD", "** #if 0", "#error x", "#pragma once", "#  if defined(A)"])
            l.segs[j] = ("\n".join(parts), c)
            p.meta["feats"] = sorted(set(p.meta.get("feats", [])) | {"comment_directive_like"})
    return p
