"""G-DECL: small files made of declaration-shaped statements (DESIGN §4.5, round 5).

Token prefixes and token edits of *conforming* programs stay close to what the rules expect.  This generator
builds statements from the pieces declarations are made of - storage classes, type words, struct / union / enum
heads with and without bodies, pointer and parenthesis declarators, array and parameter suffixes, initialisers,
`__attribute__`, line breaks in odd places, missing terminators - in random order and number, at file level and
inside a function, in .c and in (guarded) .h files.  Most of the results are not C; all of them are text a rule
that looks for a declaration has to survive.
"""

WS = ["", " ", " ", "\t", "\t", "\t\t", "  ", " \t", "\n", "\n\t"]
WS1 = [" ", " ", "\t", "\t", "\t\t", "  ", " \t", "\n\t", ""]
NAMES = ["a", "b", "tab", "s_a", "e_a", "u_a", "t_a", "t_b", "g_a", "S_A", "x1", "ft_f", "main", "environ",
         "__attribute__((packed))", "__attribute__", "__attribute__((aligned(8)))", "NULL", "size_t"]
PTRS = ["", "", "", "*", "**", "* ", "&", "(*", "*(", "* *", "(", "((", "(*(*", "*const ", "* restrict "]
STORAGE = ["typedef", "typedef", "static", "const", "extern", "register", "volatile", "inline", "static inline", "static const"]
TYPES = ["int", "char", "t_x", "struct s_a", "unsigned int", "const char", "static int", "long long", "enum e_a", "union u_a",
         "register", "volatile int", "int const", "static const t_x", "void", "unsigned long", "int[3]", "long long int",
         "__attribute__((x)) int", "extern t_x", "short", "signed", "double", "float", "size_t", "t_x *", "struct", "enum"]
BODIES = ["{%sint%sa;%s}", "\n{\n\tint\t\ta;\n\tchar\t*b;\n}", "\n{\n\tA,\n\tB = 2\n}", "\n{\n\tstruct s_i\n\t{\n\t\tint\tx;\n\t}\ty;\n}",
          "{}", "{", "\n{\n\tint\ta[3];\n\tvoid\t(*f)(int);\n}", "\n{\n\tint\ta : 3;\n}", "\n{\n\tA = 1 << 2,\n}", "\n{\n\tunion\n\t{\n\t\tint\ti;\n\t};\n}"]
SUFFIXES = ["", "", "", "[3]", "[n]", "[N]", "[sizeof(int)]", "[sizeof(n) + n]", "[a][B]", "(int)", "(void)", "[]", "[3", "[N + 1]",
            "[n ? 1 : 2]", "()", "(int a, char *b)", "(int a, ...)", "(void (*f)(int))", "(int a, int b, int c, int d, int e)", "(t_x a[3])",
            "(int)(int)", ")(int)", "[", "(", "(int", "[3][", "(int a)(", " : 3"]
INITS = ["", "", "", " = 1", " = {1, 2}", "=2", " += 1", ", b", ", *c", " = 1, d = 2", " = f(a, b)", " = (int)x", " = {.a = 1}", " = {{1}, {2}}",
         " = \"s\"", " = 'c'", " = {", " = (", " =", ", ", " = a ? b : c", " = sizeof(int)", " = &a", " = *a", " = -1"]
ATTRS = ["", "", "", " __attribute__((z))", "\n\t__attribute__((z))", " __attribute__", " __attribute__((", " __attribute__((a, b(1)))",
         "__attribute__((z)) ", " __asm__(\"x\")"]
ENDS = [";", ";", ";", ";", " ;", "", ";;", ",", ")", "}", ";\n;"]
PRE_HEADS = ["#", "#", "#", "# ", "#  ", " #", "#\t", "\t#", "#   ", "%:", "??="]
PRE_NAMES = ["define", "define", "include", "include", "ifndef", "ifdef", "if", "else", "elif", "endif", "undef", "pragma", "error", "DEFINE",
             "IFNDEF", "ENDIF", "Ifndef", "import", "", "warning", "line", "1"]
PRE_ARGS = ["", " A", " A 1", "  A", "\tA", " a", " A(x) x", " A -1", " A - 1", " A -", " A +b", " A ~", " A \"s\"", " A 'c'", " A 1 2", " A (1)", " <a.h>",
            " \"a.h\"", " <a.c>", " \"a\"", "<a.h>", " <a/b.h>", " < a.h >", " <a.h", " A // c", " A 1 /* c */", " F_H", " f_h", " F_h", " defined(A)",
            " A(", " A(x", " \"a.h\" x", " <h>", " <.h>", " <a.hh>", " \"a.h.c\"", "\t<a.h>", " A\t1", " A  1", " 1", " -", " A -// c", " A \\\n 1"]
STMTS = ["a = 1;", "int\ta;", "return (a);", "a  = 1;", "a =\t1;", "a = 1; ", "a = 1;\t", "a\t = 1;", "", "}", "{", "a = b ? c : d;", "f(a ? b : c, d);",
         "if (a)", "while (a)", "else", "else if (a)", "return ;", "break ;", "goto a;", "a:", "case 1:", "default:", "do", "for (;;)", "switch (a)",
         "f();", "(void)a;", "*a = 1;", "a++;", "--a;", "a->b = 1;", "a.b.c();", "(*f)(a);", "sizeof(a);", "a[1] = 2;", "{}", ";", "return (f(a) * (t_x)b);"]


def _c(r, lst):
    return r.choice(lst)


def utype(r):
    parts = []
    if r.random() < 0.5:
        parts += [_c(r, STORAGE), _c(r, WS1)]
    if r.random() < 0.75:
        parts += [_c(r, ["struct", "enum", "union"]), _c(r, WS1)]
        if r.random() < 0.8:
            parts += [_c(r, NAMES), _c(r, WS)]
        if r.random() < 0.5:
            b = _c(r, BODIES)
            parts += [b % (_c(r, WS), _c(r, WS1), _c(r, WS)) if "%s" in b else b, _c(r, WS)]
    else:
        parts += [_c(r, TYPES), _c(r, WS1)]
    for n in range(r.randint(0, 3)):
        if n:
            parts += [",", _c(r, WS)]
        p = _c(r, PTRS)
        parts += [p, _c(r, NAMES)]
        if "(" in p:
            parts += [")" * p.count("("), _c(r, ["(int)", "(void)", "[2]", "", "()"])]
        if r.random() < 0.15:
            parts += ["[", _c(r, ["3", "n", "N", ""]), "]"]
    parts += [_c(r, ATTRS) if r.random() < 0.2 else "", _c(r, WS) if r.random() < 0.2 else "", _c(r, ENDS)]
    return "".join(parts)


def decl(r):
    p = _c(r, PTRS)
    name = p + _c(r, ["a", "b", "g_a", "tab", "ft_f", "main"]) + (")" * p.count("(") if r.random() < 0.85 else "")
    return _c(r, TYPES) + _c(r, WS1) + name + _c(r, SUFFIXES) + _c(r, INITS) + (_c(r, ATTRS) if r.random() < 0.15 else "") + _c(r, ENDS)


def proto(r):
    name = _c(r, ["f", "*g", "**h", "(*i(int a))(int)", "j __attribute__((y))", "* k", "(l)", "(*m)", "ft_f", "main", "(*(*n)(int))(void)"])
    args = _c(r, ["(void)", "(int a)", "(int a, char *b)", "()", "(int)", "(void (*f)(int))", "(int a, ...)", "(int a, int b, int c, int d, int e)",
                  "(t_x a[3])", "(int a,\n\t\tint b)", "(", "(int a", "(int a))", "(void)(void)"])
    tail = _c(r, ["", "", "", "\n{\n\treturn (0);\n}", "\n{", " {", "\n{\n}"])
    return _c(r, TYPES) + _c(r, WS1) + name + args + _c(r, ATTRS) + (_c(r, ENDS) if not tail else tail)


def pre(r):
    return _c(r, PRE_HEADS) + _c(r, PRE_NAMES) + _c(r, PRE_ARGS) + _c(r, ["", "", "", " ", "\t", " // c", " /* c */", " \\"])


def stmt(r):
    return _c(r, ["", " ", "\t", "  ", "    ", " \t", "\t ", "\t\t"]) + _c(r, STMTS) + _c(r, ["", "", " ", "\t", "  ", " // c", " /* c */"])


GENS = [utype, decl, proto, pre, stmt]


def source(r):
    """-> (file name, text)"""
    ext = _c(r, [".c", ".h"])
    name = "f" + ext
    lines = []
    guard = ext == ".h" and r.random() < 0.6
    if guard:
        lines += ["#ifndef F_H", _c(r, ["# define F_H", "# define F_H", "#define F_H", "# define f_h", ""]), ""]
    for _ in range(r.randint(1, 4)):
        g = _c(r, GENS)
        if r.random() < 0.35:
            lines.append(_c(r, ["int\tf(void)\n{", "static t_x\t*f(int a, char **b)\n{", "void\tf(void)\n{\n\tint\ta;\n"]))
            for _ in range(r.randint(0, 7)):
                lines.append("\t" + decl(r))
            if r.random() < 0.8:
                lines.append("")
            for _ in range(r.randint(0, 3)):
                lines.append("\t" + g(r))
            if r.random() < 0.9:
                lines.append("}")
        else:
            lines.append(g(r))
    if guard:
        lines += ["", _c(r, ["#endif", "#endif", "#endif // x", "#endif\nint\tz;", "# endif", ""])]
    return name, "\n".join(lines) + _c(r, ["\n", "\n", "\n", ""])
