"""G-LEX: lexical workloads (DESIGN §3.2, §4.5, §4.9-4.12)."""
import random
import string

# reduced alphabets (each symbol is a *string*, possibly several characters)
ALPHA_POS = ["a", "1", " ", "\n", "\t", "\\\n", "\"", "'", "/", "*", "??/\n", "<:", "??(", "+", "=", "@", "\\"]
ALPHA_TOTAL = ["a", "1", "0", "x", "e", ".", "+", "-", "=", "(", "\"", "'", "/", "*", "\\", "\n", "\t", " ",
               "?", "<", ":", "%", ">", "#", "@"]


def n_products(alpha, maxlen):
    return sum(len(alpha) ** L for L in range(maxlen + 1))


def product_at(alpha, index):
    """the index-th string in length-then-lexicographic order over alpha"""
    A = len(alpha)
    L = 0
    while index >= A ** L:
        index -= A ** L
        L += 1
    out = []
    for _ in range(L):
        out.append(alpha[index % A])
        index //= A
    return "".join(reversed(out))


def products(alpha, maxlen, shard, nshards, minlen=0):
    """all strings over alpha with minlen <= length <= maxlen, striped over shards"""
    A = len(alpha)
    base = sum(A ** L for L in range(minlen))
    total = n_products(alpha, maxlen)
    i = base + shard
    # incremental odometer would be faster, but product_at is cheap next to a lexer run
    while i < total:
        yield product_at(alpha, i)
        i += nshards


KEYWORDS = ("auto break case char const continue default do double else enum extern float for goto if int "
            "long register return short signed sizeof static struct switch typedef union unsigned void "
            "volatile while inline NULL restrict").split()
# identifiers that merely contain or resemble a keyword: still identifiers, spelt as written
NEAR_KEYWORDS = [f % k for k in KEYWORDS for f in ("__%s", "__%s__", "_%s", "%s_", "%sx", "x%s", "%s1")] + [k.upper() for k in KEYWORDS if k != "NULL"] + \
                ["__attribute__", "__asm__", "__typeof__", "__extension__", "_Bool", "_Alignas", "__func__", "null", "Null"]
OPERATORS = [">>=", "<<=", "...", "->", "++", "--", "<<", ">>", "<=", ">=", "==", "!=", "&&", "||", "+=", "-=",
             "*=", "/=", "%=", "&=", "|=", "^=", "+", "-", "*", "/", "%", "<", ">", "=", "!", "&", "|", "^", "~",
             "?", ":", ";", ",", ".", "#"]
BRACKETS = ["(", ")", "[", "]", "{", "}"]
ALT = ["<%", "%>", "<:", ":>", "%:", "??<", "??>", "??(", "??)", "??=", "??'", "??!", "??-", "??!??!", "??'=",
       "??!="]
INTS = ["0", "1", "42", "0x1f", "0XAB", "017", "0b101", "10u", "10UL", "7ll", "9uLL", "3z", "0xb3ba", "1wb",
        "2i64", "089", "0b12", "12ab", "0x1g"]
FLOATS = ["1.0", ".5", "1.", "1e3", "1.5e-3", "2E+4f", "0x1p3", "0x1.8p-1", "1.5L", "3.f", "1e", "1.2.3",
          "0xe+1", "1.5q"]
CHARS = ["'a'", "'\\n'", "'\\0'", "'\\x41'", "'\\''", "L'a'", "u8'b'", "''", "'ab'", "'\\q'", "'\\101'"]
STRINGS = ['""', '"abc"', '"a\\"b"', '"\\n%d"', 'L"w"', 'u8"x"', '"a\\\nb"', '"tab\there"', '"/* not */"',
           '"// no"', '"\\q"', '"\\x"', '"ff\x0c vt\x0b"', '"\u2028"', 'L"\\x12"', '"%:>"', "'\x0c'", 'u"\\777"']
COMMENTS = ["// c", "//", "/* c */", "/**/", "/* a\nb */", "/* a\n\tb\n */", "/*\t\tx */", "// a \\\nb",
            "/* a \\\n b */", "// x ??/\ny", "/* page\x0cbreak */", "// vt\x0b nel\x85", "/* ls\u2028ps\u2029 */", "/* %:> <::> */",
            "/*\x1c\n\x1e*/", "// %:%:<%"]
WS = [" ", " ", "\t", "\n", "\n", "  ", "\t\t", " \t"]
SPLICE = ["\\\n", "??/\n"]
BAD = ["@", "$", "`", "\\", "\x00", "\r", "é", "\x7f", "€", "\x0c", "\x0b", "\x85", "\u2028", "\x1c", "\x1e", "\ufeff"]
OPEN = ["'", "\"", "/*", "'a", "\"abc", "/* x", "'\\", "\"\\"]


def ident(r):
    n = r.randint(1, 8)
    return r.choice(string.ascii_letters + "_") + "".join(r.choice(string.ascii_letters + string.digits + "_")
                                                            for _ in range(n - 1))


def soup(r, n=None, bad=0.06, splice=0.08, opener=0.02):
    """random sequence of lexemes; returns the text"""
    n = n or r.randint(5, 60)
    out = []
    for _ in range(n):
        x = r.random()
        if x < bad:
            out.append(r.choice(BAD))
        elif x < bad + splice:
            out.append(r.choice(SPLICE))
        elif x < bad + splice + opener:
            out.append(r.choice(OPEN))
        else:
            k = r.randrange(12)
            if k == 0:
                out.append(ident(r))
            elif k == 1:
                out.append(r.choice(KEYWORDS if r.random() < 0.6 else NEAR_KEYWORDS))
            elif k == 2:
                out.append(r.choice(OPERATORS))
            elif k == 3:
                out.append(r.choice(BRACKETS))
            elif k == 4:
                out.append(r.choice(ALT))
            elif k == 5:
                out.append(r.choice(INTS + FLOATS))
            elif k == 6:
                out.append(r.choice(CHARS))
            elif k == 7:
                out.append(r.choice(STRINGS))
            elif k == 8:
                out.append(r.choice(COMMENTS))
            else:
                out.append(r.choice(WS))
        if r.random() < 0.35:
            out.append(r.choice(WS))
    return "".join(out)


def long_runs():
    """very long runs of unmatched / half-open lexemes (C05)"""
    units = ["@", "$", "`", "\x00", "é", "\r", "'", "\"", "/*", "//", "\\\n", "??/\n", "\\", "(", "{", "#",
             "?", "??", "0x", "1e", ".", "'a", "\"\\"]
    for u in units:
        for n in (50, 99, 100, 101, 400, 1000, 1100, 5000):
            yield u * n
            yield "'" + u * n
            yield "\"" + u * n
            yield "/*" + u * n
            yield "//" + u * n
            yield "a " + u * n + " b\n"


# ---------------------------------------------------------------- nested grammar (containers x payloads)
# characters str.splitlines() treats as line ends although C (and the lexer) does not
LINEISH = ["\f", "\v", "\r", "\x1c", "\x1e", "\x85", "\u2028", "\u2029"]
PAYLOAD = (["<:", ":>", "<%", "%>", "%:", "%:%:"] +
           ["??=", "??/", "??'", "??(", "??)", "??!", "??<", "??>", "??-"] +
           ["%", ":", ">", "<", "?", "??"] +
           ["\\", "\\x", "\\x1", "\\x12", "\\0", "\\12", "\\n", "\\q", "\\u12", "\\'", "\\\""] +
           ["\t", " ", "\n", "\\\n", "??/\n"] +
           LINEISH[:6] + ["\u00e9", "@"] +
           ["a", "1", "0x1f", "1.5", "*", "/", "'", "\"", "#"])
CONTAINERS = ["%s", "/*%s*/", "//%s\n", "\"%s\"", "'%s'", "L\"%s\"", "U'%s'", "u8\"%s", "L'%s", "/*%s", "\"%s", "#define A %s\n",
              "a %s b\n", "\t%s;\n"]


def grammar(maxlen, shard, nshards):
    """every container filled with every payload sequence of length 1..maxlen, striped over shards"""
    import itertools
    k = 0
    for L in range(1, maxlen + 1):
        for seq in itertools.product(PAYLOAD, repeat=L):
            body = "".join(seq)
            for c in CONTAINERS:
                k += 1
                if k % nshards == shard:
                    yield c % body


def grammar_sample(r, n, length):
    for _ in range(n):
        body = "".join(r.choice(PAYLOAD) for _ in range(length))
        yield r.choice(CONTAINERS) % body
