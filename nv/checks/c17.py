"""C17 - comment text and string contents are opaque (DESIGN §4.17).

Relation between two monitored runs: the file, and the same file with the
body of a subset of comment / string / character segments (sites known from the
IR, not from the lexer) replaced by code-like text of the same displayed
width.  Oracle: identical observation (status + every diagnostic's code,
level, line and column).
"""
import random

from nv import relwork
from nv.run import Shard

ID = "C17"
LEVEL = "exploration"
RULE = ("pairs (file, file with replaced literal/comment bodies) over generated conforming files and one-violation "
        "variants carrying comments (file level, end of line, inside bodies) and literals (expressions, #define values); "
        "non-trivial = at least one body actually changed; distinct = distinct (original, replacement) text pair")
ASSUMPTIONS = ["replacement text has no delimiter of its own kind, no backslash, no newline, no `*/`, never `??`"]
WORKER_TIMEOUT = {"quick": 600, "thorough": 3600}

CODE_LIKE = list("+-*/%=<>!&|^~;,(){}[]#:.? ") + list("abcxyz0123456789_") + ["if", "while", "int", "return", "for",
                                                                                "else", "char", "NULL", "sizeof"]


def plan(tier, seed):
    q = tier == "quick"
    n = 16 if q else 48
    return [{"mode": "pairs", "seed": seed, "shard": i, "n": 30 if q else 260} for i in range(n)]


def fill(r, width, banned, other_quote):
    out = ""
    alphabet = [a for a in CODE_LIKE + [other_quote] if not any(b in a for b in banned)]
    while len(out) < width:
        a = r.choice(alphabet)
        if len(out) + len(a) > width:
            a = a[:width - len(out)]
        if out.endswith("?") and a.startswith("?"):
            continue
        out += a
    return out


def mutate(p, r):
    """-> (new prog, number of bodies changed)"""
    q = p.copy()
    changed = 0
    for l in q.lines:
        if l.kind == "hdr":
            continue
        for j, (t, c) in enumerate(l.segs):
            if r.random() < 0.3:
                continue
            new = None
            if c == "const:str":
                k = t.index('"')
                body = t[k + 1:-1]
                if not body:
                    continue
                new = t[:k + 1] + fill(r, len(body), ['"', "\\"], "'") + '"'
            elif c == "const:char":
                k = t.index("'")
                body = t[k + 1:-1]
                if len(body) != 1:
                    continue
                new = t[:k + 1] + fill(r, 1, ["'", "\\", " "], '"') + "'"
            elif c == "comment:block":
                body = t[2:-2]
                nb = fill(r, len(body), ["*/", "\\"], '"')
                if "*/" in (nb + "*/")[:-2] or nb.endswith("*") and False:
                    continue
                if ("/*" + nb + "*/").index("*/") != len(nb) + 2:
                    continue
                new = "/*" + nb + "*/"
            elif c == "comment:line":
                body = t[2:]
                new = "//" + fill(r, len(body), ["\\"], '"')
            elif c == "comment:multi":
                parts = t[2:-2].split("\n")
                nparts = [fill(r, len(x), ["*/", "\\"], "'") for x in parts]
                cand = "/*" + "\n".join(nparts) + "*/"
                if cand.index("*/") != len(cand) - 2:
                    continue
                new = cand
            if new is not None and new != t:
                l.segs[j] = (new, c)
                changed += 1
    return q, changed


def run_shard(spec):
    sh = Shard(max_per_sig=3)
    r = random.Random("c17/%s/%d" % (spec["seed"], spec["shard"]))
    for p, tag in relwork.corpus(spec, nvar=3, force=("V57", "V58", "V59")):
        for rep in range(2):
            q, changed = mutate(p, r)
            if not changed:
                sh.count("c17.no_site")
                break
            a, ra = relwork.obs_of(p.name, p.text())
            b, rb = relwork.obs_of(q.name, q.text())
            sh.case(p.text() + "\0" + q.text())
            sh.count("c17.obs_equal")
            sh.tally("bodies_replaced", "n", changed)
            sh.tally("pairs", tag.split(":")[0])
            if a != b:
                d = relwork.diff(a, b)
                sh.violation("obs_differs", (tag.split(":")[1],) + relwork.sig_of_diff(d),
                             {"mode": "pair", "name": p.name, "a": p.text(), "b": q.text()}, d)
            sh.sample({"original_line": _first_diff(p.text(), q.text())[0], "replaced_line": _first_diff(p.text(), q.text())[1]}, cap=2)
    return sh.result()


def _first_diff(a, b):
    for x, y in zip(a.split("\n"), b.split("\n")):
        if x != y:
            return x, y
    return "", ""


def replay(case, sh):
    a, _ = relwork.obs_of(case["name"], case["a"])
    b, _ = relwork.obs_of(case["name"], case["b"])
    sh.evaluations += 1
    if a != b:
        sh.violation("obs_differs", ("replay",), case, relwork.diff(a, b))


def finish(merged, tier, seed):
    a = merged["asserts"]
    inc = []
    if a.get("c17.obs_equal", 0) < 500:
        inc.append("only %d pairs compared" % a.get("c17.obs_equal", 0))
    return {"inconclusive": inc, "coverage": {"pairs": merged["cov"].get("pairs"),
                                              "bodies_replaced": merged["cov"].get("bodies_replaced", {}).get("n")},
            "summary": ["pairs %s, %s bodies replaced" % (merged["cov"].get("pairs"),
                                                        merged["cov"].get("bodies_replaced", {}).get("n"))]}
