"""C17 - comment text and string contents are opaque (DESIGN §4.17).

Relation between two monitored runs: the file, and the same file with the
body of a subset of comment / string / character segments (sites known from the
IR, not from the lexer) replaced by code-like text of the same displayed
width.  Oracle: identical observation (status + every diagnostic's code,
level, line and column).
"""
import os
import random
import shutil
import tempfile

from nv import relwork, cliobs
from nv.run import Shard

ID = "C17"
LEVEL = "exploration"
RULE = ("pairs (file, file with replaced literal/comment bodies) over generated conforming files and one-violation "
        "variants carrying comments (file level, end of line, inside bodies) and literals (expressions, #define values); "
        "non-trivial = at least one body actually changed; distinct = distinct (original, replacement) text pair")
ASSUMPTIONS = ["replacement text has no delimiter of its own kind, no backslash, no newline, no `*/`, never `??`"]
WORKER_TIMEOUT = {"quick": 600, "thorough": 3600}

CODE_LIKE = list("+-*/%=<>!&|^~;,(){}[]#:.? ") + list("abcxyz0123456789_") + ["if", "while", "int", "return", "for",
                                                                                "else", "char", "NULL", "sizeof"]
# alternative spellings of punctuators are ordinary text inside a comment or a literal (never ??/, a backslash in disguise)
# characters outside ASCII and control characters that some library calls (str.splitlines, codecs) treat specially:
# each is one character, one column, and means nothing in a comment or a literal
UNICODE_LIKE = ["\u00e9", "\u20ac", "\u00df", "\u6f22", "\U0001f600", "\x0c", "\x0b", "\x1c", "\x85", "\u2028", "\u00a0", "\x7f"]
ALT_SPELLINGS = ["<:", ":>", "<%", "%>", "%:", "??(", "??)", "??<", "??>", "??=", "??'", "??!", "??-"]


def plan(tier, seed):
    q = tier == "quick"
    n = 16 if q else 48
    return [{"mode": "pairs", "seed": seed, "shard": i, "n": 30 if q else 260} for i in range(n)]


def fill(r, width, banned, other_quote, mode="mixed", allow_alt=True):
    out = ""
    alphabet = [a for a in CODE_LIKE + (ALT_SPELLINGS if allow_alt else []) + [other_quote] if not any(b in a for b in banned)]
    if mode == "alt_spellings" and not allow_alt:
        mode = "punctuation"
    if mode == "no_blank":
        alphabet = [a for a in alphabet if " " not in a]
    elif mode == "punctuation":
        alphabet = [a for a in alphabet if not a[0].isalnum() and a != " "]
    elif mode == "alt_spellings":
        alphabet = [a for a in ALT_SPELLINGS if not any(b in a for b in banned)] + ["a", " "]
    elif mode == "unicode":
        alphabet = UNICODE_LIKE + ["a", " ", "+", "("]
    while len(out) < width:
        a = r.choice(alphabet)
        if len(out) + len(a) > width:
            a = a[:width - len(out)]
        if out.endswith("?") and a.startswith("?"):
            continue
        if not allow_alt and any(x in (out[-2:] + a) for x in ALT_SPELLINGS):
            continue        # two single characters must not form a digraph by accident either
        out += a
    return out


def mutate(p, r, mode="mixed", alt_everywhere=False):
    """-> (new prog, number of bodies changed)"""
    q = p.copy()
    changed = 0
    state = {"alt": True}

    def fill(r, width, banned, other_quote, _f=globals()["fill"]):
        return _f(r, width, banned, other_quote, mode, state["alt"])
    for l in q.lines:
        if l.kind == "hdr":
            continue
        # known finding F-58: in a comment the lexer replaces digraphs/trigraphs, so they count for one column in
        # the comment-width rule; alternative spellings are kept out of comment lines near the limit (the dedicated
        # probe below exercises exactly that)
        state["alt"] = alt_everywhere or not (l.width_max() >= 74 and any(c.startswith("comment") for _, c in l.segs))
        for j, (t, c) in enumerate(l.segs):
            if r.random() < 0.3:
                continue
            new = None
            if c == "const:str":
                k = t.index('"')
                body = t[k + 1:-1]
                if not body:
                    continue
                new = t[:k + 1] + fill(r, len(body), ['"', "\\"], "'") + '"'
            elif c == "const:char":
                k = t.index("'")
                body = t[k + 1:-1]
                if len(body) != 1:
                    continue
                new = t[:k + 1] + fill(r, 1, ["'", "\\", " "], '"') + "'"
            elif c == "comment:block":
                body = t[2:-2]
                nb = fill(r, len(body), ["*/", "\\"], '"')
                if "*/" in (nb + "*/")[:-2] or nb.endswith("*") and False:
                    continue
                if ("/*" + nb + "*/").index("*/") != len(nb) + 2:
                    continue
                new = "/*" + nb + "*/"
            elif c == "comment:line":
                body = t[2:]
                new = "//" + fill(r, len(body), ["\\"], '"')
            elif c == "comment:multi":
                parts = t[2:-2].split("\n")
                nparts = [fill(r, len(x), ["*/", "\\"], "'") for x in parts]
                cand = "/*" + "\n".join(nparts) + "*/"
                if cand.index("*/") != len(cand) - 2:
                    continue
                new = cand
            if new is not None and new != t:
                l.segs[j] = (new, c)
                changed += 1
    return q, changed


def long_comment_programs(spec, r):
    """files whose comment lines sit around the 80-column limit (78..84), at file level, at the end of a code
    line, inside a block comment and inside a function body: the width limit must not look at the text either"""
    from nv.gen.ir import Line, Prog, IND, SP, TAB
    from nv.gen import conf
    for k in range(max(2, spec["n"] // 6)):
        g = conf.Gen("c17long/%s/%d/%d" % (spec["seed"], spec["shard"], k))
        lines = g.header_lines("test.c") + [Line("blank", [])]
        w = r.randint(78, 84)
        words = lambda n: ("word " * 40)[:n]
        lines.append(Line("comment", [("// " + words(w - 3), "comment:line")]))
        lines.append(Line("blank", []))
        lines.append(Line("comment", [("/* " + words(w - 6) + " */", "comment:block")]))
        lines.append(Line("blank", []))
        lines.append(Line("comment", [("/*\n** " + words(r.randint(75, 82)) + "\n** " + words(10) + "\n*/", "comment:multi")]))
        lines.append(Line("blank", []))
        # something after the end of a multi-line comment on its closing line: a blank, code, text up to the limit
        lines.append(Line("comment", [("/*\n** " + words(r.randint(10, 40)) + "\n** " + words(12) + "\n*/", "comment:multi"), (" ", "ws:trail")]))
        lines.append(Line("blank", []))
        lines.append(Line("global", [("/*\n** " + words(r.randint(10, 40)) + "\n*/", "comment:multi"), SP, ("int", "type"), TAB(1),
                                     ("g_w", "id:global"), (";", "punct")]))
        lines.append(Line("blank", []))
        lines.append(Line("comment", [("/* " + words(20) + "\n" + words(r.randint(74, 79)) + " */", "comment:multi")]))
        lines.append(Line("blank", []))
        gl = [("static int", "kw"), TAB(1), ("g_v", "id:global"), SP, ("=", "op:assign"), SP, ("0", "const:int"), (";", "punct"), SP]
        lines.append(Line("global", gl + [("// " + words(r.randint(55, 62)), "comment:line")]))
        lines.append(Line("blank", []))
        fl, _, _ = g.function(0, body_lines=3)
        lines += fl
        # a long comment inside the body (reported as a scope error as well; both runs see the same)
        idx = len(lines) - 1
        lines.insert(idx, Line("comment", [IND(1), ("/* " + words(r.randint(70, 78)) + " */", "comment:block")], 1, 0))
        p = Prog("test.c", lines)
        yield p, "longcomment:c"


def run_shard(spec):
    sh = Shard(max_per_sig=3)
    r = random.Random("c17/%s/%d" % (spec["seed"], spec["shard"]))
    import itertools
    nuni = ndisk = 0
    for p, tag in itertools.chain(relwork.corpus(spec, nvar=3, force=("V57", "V58", "V59")), long_comment_programs(spec, r)):
        for rep, mode in enumerate(["mixed", r.choice(["no_blank", "punctuation", "alt_spellings"])]):
            q, changed = mutate(p, r, mode)
            if not changed:
                sh.count("c17.no_site")
                break
            a, ra = relwork.obs_of(p.name, p.text())
            b, rb = relwork.obs_of(q.name, q.text())
            sh.case(p.text() + "\0" + q.text())
            sh.count("c17.obs_equal")
            sh.tally("bodies_replaced", "n", changed)
            sh.tally("pairs", tag.split(":")[0])
            if a != b:
                d = relwork.diff(a, b)
                sh.violation("obs_differs", (tag.split(":")[1],) + relwork.sig_of_diff(d),
                             {"mode": "pair", "name": p.name, "a": p.text(), "b": q.text()}, d)
            sh.sample({"original_line": _first_diff(p.text(), q.text())[0], "replaced_line": _first_diff(p.text(), q.text())[1]}, cap=2)
        # characters outside ASCII, both directions (the original holds them, the replacement is ASCII, and back), in
        # process and - for a few - with the command line reading the files itself
        nuni += 1
        if nuni % 3 == 0:
            u, changed = mutate(p, r, "unicode")
            if changed:
                v, _ = mutate(u, r, "mixed")
                obs = [relwork.obs_of(x.name, x.text())[0] for x in (p, u, v)]
                sh.count("c17.obs_equal_unicode")
                sh.tally("pairs", "unicode")
                sh.case("uni\0" + u.text() + "\0" + v.text())
                for (x, ox), (y, oy) in (((p, obs[0]), (u, obs[1])), ((u, obs[1]), (v, obs[2]))):
                    if ox != oy:
                        d = relwork.diff(ox, oy)
                        sh.violation("obs_differs", ("unicode",) + relwork.sig_of_diff(d),
                                     {"mode": "pair", "name": p.name, "a": x.text(), "b": y.text()}, d)
                if ndisk < spec.get("disk", 4) and obs[1][0] == "ok":
                    ndisk += 1
                    got = []
                    for x in (u, v):
                        d0 = tempfile.mkdtemp(prefix="nv_c17_")
                        try:
                            with open(os.path.join(d0, x.name), "w", encoding="utf-8") as f:
                                f.write(x.text())
                            run = cliobs.run_cli(["--no-colors", x.name], cwd=d0)
                            fs = [f for f in (run.trace or {}).get("files", []) if f.get("state") == "done"]
                            got.append((fs[0].get("status"), sorted((e[0], e[1], e[2], e[3]) for e in fs[0].get("events") or []))
                                       if fs else None)
                        finally:
                            shutil.rmtree(d0, ignore_errors=True)
                    sh.count("c17.obs_equal_read_from_disk")
                    sh.tally("pairs", "unicode_cli")
                    if got[0] is None or got[1] is None:
                        sh.count("c17.disk_pair_without_verdict")
                    elif got[0] != got[1] or ("ok",) + got[0] != tuple(obs[1]):
                        sh.violation("obs_differs_read_from_disk", ("unicode",), {"mode": "disk_pair", "name": p.name, "a": u.text(), "b": v.text()},
                                     {"only_a": [e for e in got[0][1] if e not in got[1][1]][:4], "only_b": [e for e in got[1][1] if e not in got[0][1]][:4],
                                      "in_process": [list(x) for x in (obs[1][2] or [])][:4], "status": [got[0][0], got[1][0]]})
    # probe of F-58: alternative spellings inside comment lines near the width limit
    for p, tag in long_comment_programs(dict(spec, n=6), r):
        q, changed = mutate(p, r, "alt_spellings", alt_everywhere=True)
        a, _ = relwork.obs_of(p.name, p.text())
        b, _ = relwork.obs_of(q.name, q.text())
        sh.case("f58\0" + p.text() + "\0" + q.text())
        sh.count("c17.alt_spelling_probe")
        if a != b:
            d = relwork.diff(a, b)
            codes = sorted(set(x[0] for x in d.get("only_a", []) + d.get("only_b", [])))
            d["codes"] = codes
            d["only_width_rule_and_its_position_side_effect"] = set(codes) <= {"LINE_TOO_LONG", "WRONG_SCOPE_COMMENT"}
            sh.violation("alt_spelling_in_long_comment", tuple(codes), {"mode": "pair", "name": p.name, "a": p.text(), "b": q.text(),
                                                                      "probe": "f58"}, d)
    return sh.result()


def _first_diff(a, b):
    for x, y in zip(a.split("\n"), b.split("\n")):
        if x != y:
            return x, y
    return "", ""


def replay(case, sh):
    if case.get("mode") == "disk_pair":
        got = []
        for txt in (case["a"], case["b"]):
            d0 = tempfile.mkdtemp(prefix="nv_c17r_")
            try:
                with open(os.path.join(d0, case["name"]), "w", encoding="utf-8") as f:
                    f.write(txt)
                run = cliobs.run_cli(["--no-colors", case["name"]], cwd=d0)
                fs = [f for f in (run.trace or {}).get("files", []) if f.get("state") == "done"]
                got.append((fs[0].get("status"), sorted((e[0], e[1], e[2], e[3]) for e in fs[0].get("events") or [])) if fs else None)
            finally:
                shutil.rmtree(d0, ignore_errors=True)
        sh.evaluations += 1
        a, _ = relwork.obs_of(case["name"], case["a"])
        if got[0] != got[1] or (got[0] is not None and a[0] == "ok" and ("ok",) + got[0] != tuple(a)):
            sh.violation("obs_differs_read_from_disk", ("replay",), case, {})
        return
    a, _ = relwork.obs_of(case["name"], case["a"])
    b, _ = relwork.obs_of(case["name"], case["b"])
    sh.evaluations += 1
    if a != b:
        d = relwork.diff(a, b)
        if case.get("probe") == "f58":
            codes = sorted(set(x[0] for x in d.get("only_a", []) + d.get("only_b", [])))
            d["codes"] = codes
            d["only_width_rule_and_its_position_side_effect"] = set(codes) <= {"LINE_TOO_LONG", "WRONG_SCOPE_COMMENT"}
            sh.violation("alt_spelling_in_long_comment", tuple(codes), case, d)
        else:
            sh.violation("obs_differs", ("replay",), case, d)


def finish(merged, tier, seed):
    a = merged["asserts"]
    inc = []
    if a.get("c17.obs_equal", 0) < 500:
        inc.append("only %d pairs compared" % a.get("c17.obs_equal", 0))
    return {"inconclusive": inc, "coverage": {"pairs": merged["cov"].get("pairs"),
                                              "bodies_replaced": merged["cov"].get("bodies_replaced", {}).get("n")},
            "summary": ["pairs %s, %s bodies replaced" % (merged["cov"].get("pairs"),
                                                        merged["cov"].get("bodies_replaced", {}).get("n"))]}
