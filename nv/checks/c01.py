"""C01 - norm-conforming files are accepted (DESIGN §4.1).

Specification side: G-CONF builds files that conform by construction.
Deciding monitors: M-DIAG (no Error-level event may be emitted), M-SEG (no
unrecognised token), outcome observation (no fatal, no exception) and, for the
CLI clause, M-CLI (`<name>: OK!`, exit status 0).
"""
import os
import random
import shutil
import tempfile

from nv import core, pipework, cliobs
from nv.run import Shard, h8

ID = "C01"
LEVEL = "exploration"
RULE = ("files drawn from the conforming-program grammar of DESIGN §4.1 (seeded; constants and operator/operand/context "
        "combinations additionally cycled from deterministic lists); non-trivial = the rules recognised >= 10 "
        "statements of >= 4 kinds; distinct = distinct (name, text)")
ASSUMPTIONS = ["the generator's output conforms to the Norm by construction (grammar of DESIGN §4.1)",
               "literal families with a recorded lexer defect (C11 known findings) are not planted"]
WORKER_TIMEOUT = {"quick": 600, "thorough": 3600}

WS = ("SPACE", "TAB", "NEWLINE")


def plan(tier, seed):
    q = tier == "quick"
    specs = pipework.plan_programs(tier, seed, "C01", nshards=16 if q else 64, per_shard=560 if q else 3000)
    specs += [{"mode": "cli", "seed": seed, "shard": i, "n": 40, "batches": 2 if q else 12} for i in range(4)]
    return specs


def judge(sh, p, r, case):
    """the C01 oracle on one monitored run of a conforming program"""
    sh.count("c01.no_error_level_diagnostic")
    if r.outcome != "ok":
        detail = {"outcome": r.outcome, "detail": str(r.detail)[:200]}
        sig = (r.outcome,) + tuple(r.detail if isinstance(r.detail, tuple) else (str(r.detail)[:40],))
        import re
        m = re.search(r"Unrecognized line \((\d+), (\d+)\)", str(r.detail)) if r.outcome == "fatal" else None
        if m:
            # the structure of the line the fatal diagnostic points at
            ctx = p.context_at(int(m.group(1)), int(m.group(2)))
            detail.update(ctx)
            detail.update({"line": int(m.group(1)), "col": int(m.group(2)), "text": p.text().split("\n")[int(m.group(1)) - 1]})
            sig = ("fatal", "Unrecognized line", ctx.get("line_kind"))
        if r.outcome == "fatal" and not m:
            # a fatal diagnostic without a position: if the file holds a statement of the F-60 shape (cut at its first
            # comma, the rest becomes unbalanced text), that statement is the structure the finding is keyed on
            from nv.findings import f60_shape
            for l in p.lines:
                if l.kind == "stmt" and f60_shape([tuple(x) for x in l.segs]):
                    detail.update({"segs": [list(x) for x in l.segs], "text": l.text(), "line_kind": "stmt"})
                    break
        sh.violation("not_analysed", sig, case, detail)
        return False
    ok = True
    for d in r.sess.diags:
        if d["level"] != "Error":
            continue
        ok = False
        line, col = (d["hl"][0][0], d["hl"][0][1]) if d["hl"] else (None, None)
        ctx = p.context_at(line, col) if line else {}
        ctx.update({"code": d["code"], "emitter": d["emitter"], "line": line, "col": col,
                    "text": p.text().split("\n")[line - 1] if line else None})
        sh.violation("false_positive", (d["code"], d["emitter"], ctx.get("seg"), ctx.get("prev"), ctx.get("next")), case, ctx)
    sh.count("c01.status_ok")
    if r.status != "OK" and ok:
        sh.violation("status_not_ok", (r.status,), case, {})
    sh.count("c01.nothing_unrecognised")
    if r.sess.unrec:
        sh.violation("unrecognised_in_conforming", (r.sess.unrec[0][0],), case, {"first": r.sess.unrec[0]})
    return ok


def run_programs(spec):
    sh = Shard(max_per_sig=3)
    nprog = 0
    for p, tag in pipework.base_programs(spec):
        src = p.text()
        case = {"name": p.name, "src": src, "mode": "api", "tag": tag, "ir": p.to_json()}
        r = core.api_run(p.name, src, want_tokens=True, clock=False)
        kinds = set(s[0] for s in r.sess.stmts)
        sh.case(p.name + "\0" + src, nontrivial=len(r.sess.stmts) >= 10 and len(kinds) >= 4)
        judge(sh, p, r, case)
        nprog += 1
        if nprog % 6 == 0:
            # accepted under the option settings rules can see as well (-R CheckDefine, debug level)
            case2 = dict(case, added=["CheckDefine"], debug=1)
            r2 = core.api_run(p.name, src, clock=False, added=["CheckDefine"], debug=1)
            sh.count("c01.accepted_under_option_settings")
            judge(sh, p, r2, case2)
        pipework.monitor_failures(sh, r, case, seg=True)
        sh.add_asserts({k: v for k, v in r.sess.asserts.items() if k.startswith(("seg.", "diag."))})
        # coverage actually seen by the rules
        ty = [t[0] for t in r.sess.tokens if t[0] not in WS]
        for a, b, c in zip(ty, ty[1:], ty[2:]):
            sh.cover("trigrams", h8(a + " " + b + " " + c))
        prev = None
        for s in r.sess.stmts:
            sh.cover("stmt_triples", "%s<%s@%d" % (s[0], prev, s[6][1]))
            prev = s[0]
        for f in p.meta.get("feats", []):
            sh.tally("features", f)
        sh.tally("planted_from_cycling_lists", "n", p.meta.get("planted", 0))
        sh.tally("files", p.ftype)
        sh.tally("lines", "n", p.nphys())
        sh.sample({"name": p.name, "lines": p.nphys(), "excerpt": "\n".join(src.split("\n")[12:24])}, cap=1)
    return sh


def run_cli(spec):
    sh = Shard()
    tmp = tempfile.mkdtemp(prefix="nv_c01_")
    try:
        for b in range(spec["batches"]):
            sp = {"seed": spec["seed"], "shard": 1000 + spec["shard"] * 50 + b, "n": spec["n"]}
            names = []
            d = os.path.join(tmp, "b%d" % b)
            os.mkdir(d)
            progs = {}
            for k, (p, tag) in enumerate(pipework.base_programs(sp)):
                # the header's guard follows the file name, so give each file its own name before generating
                pass
            from nv.gen import conf
            for k in range(spec["n"]):
                kind = "h" if k % 3 == 2 else "c"
                name = "f%d_%d.%s" % (b, k, kind)
                p = conf.make("%s/cli/%d/%d/%d" % (spec["seed"], spec["shard"], b, k), kind, name=name)
                # the CLI clause is about files the in-process run accepts (a false positive is reported,
                # with its structural context, by the in-process part of this check)
                r0 = core.api_run(name, p.text(), clock=False)
                if r0.outcome != "ok" or r0.errors():
                    sh.count("c01.cli_skipped_not_clean_in_process")
                    continue
                with open(os.path.join(d, name), "w") as f:
                    f.write(p.text())
                names.append(name)
                progs[name] = p
            opts = [["--no-colors"], ["--no-colors", "-R", "CheckDefine"], ["--no-colors", "-o"], ["--no-colors", "-R", "CheckForbiddenSourceHeader"]][b % 4]
            r = cliobs.run_cli(opts + names, cwd=d, timeout=300)
            sh.case("cli\0" + " ".join(opts) + "\0".join(progs[n].text() for n in names), nontrivial=True)
            sh.tally("cli_option_sets", " ".join(opts))
            case = {"mode": "cli", "files": {n: progs[n].text() for n in names}, "opts": opts}
            sh.count("c01.cli_exit_status_0")
            if r.timeout:
                sh.inconclusive.append("CLI batch exceeded the wall-clock watchdog")
                continue
            if r.rc != 0 or r.traceback():
                sh.violation("cli_exit_status", (str(r.rc),), case, {"rc": r.rc, "stderr": r.stderr[-300:], "stdout_tail": r.stdout[-600:]})
            try:
                files = r.parsed()
            except Exception as e:
                sh.violation("cli_unparsable_report", (type(e).__name__,), case, {"error": str(e)})
                continue
            sh.count("c01.cli_one_ok_line_per_file", len(names))
            got = [f["name"] for f in files]
            if got != names:
                sh.violation("cli_verdict_lines", ("names",), case, {"expected": names, "got": got})
            for f in files:
                if f["status"] != "OK" or any(dg[1] == "Error" for dg in f["diags"]):
                    sh.violation("cli_not_ok", (f["status"],), case, {"file": f["name"], "diags": f["diags"][:5]})
            shutil.rmtree(d, ignore_errors=True)
        sh.sample({"cli_batch_files": spec["n"], "argv": "--no-colors f0_0.c f0_1.c f0_2.h ..."}, cap=1)
    finally:
        shutil.rmtree(tmp, ignore_errors=True)
    return sh


def run_shard(spec):
    if spec["mode"] == "cli":
        return run_cli(spec).result()
    return run_programs(spec).result()


def replay(case, sh):
    if case.get("mode") == "cli":
        tmp = tempfile.mkdtemp(prefix="nv_c01r_")
        try:
            for n, t in case["files"].items():
                with open(os.path.join(tmp, n), "w") as f:
                    f.write(t)
            r = cliobs.run_cli(case.get("opts", ["--no-colors"]) + list(case["files"]), cwd=tmp)
            sh.evaluations += 1
            if r.rc != 0:
                sh.violation("cli_exit_status", (str(r.rc),), case, {"rc": r.rc, "stdout_tail": r.stdout[-600:]})
        finally:
            shutil.rmtree(tmp, ignore_errors=True)
        return
    from nv.gen.ir import Prog, Line
    if case.get("ir"):
        p = Prog.from_json(case["ir"])
    else:
        p = Prog(case["name"], [Line("raw", [(l, "raw")]) for l in case["src"].split("\n")[:-1]])
    r = core.api_run(p.name, p.text(), clock=False, added=case.get("added"), debug=case.get("debug", 0))
    sh.evaluations += 1
    judge(sh, p, r, case)


def finish(merged, tier, seed):
    cov = merged["cov"]
    a = merged["asserts"]
    tri = len(cov.get("trigrams", []))
    trip = len(cov.get("stmt_triples", []))
    inc = []
    floor_tri, floor_trip = (3000, 60) if tier == "quick" else (5000, 80)
    if tri < floor_tri:
        inc.append("only %d distinct token-kind trigrams seen (floor %d)" % (tri, floor_tri))
    if trip < floor_trip:
        inc.append("only %d distinct (statement, predecessor, depth) triples seen (floor %d)" % (trip, floor_trip))
    if a.get("c01.cli_one_ok_line_per_file", 0) < 100:
        inc.append("CLI clause observed on only %d files" % a.get("c01.cli_one_ok_line_per_file", 0))
    coverage = {"token_kind_trigrams": tri, "stmt_pred_depth_triples": trip, "features": cov.get("features"),
                "files": cov.get("files"), "physical_lines": cov.get("lines", {}).get("n"),
                "planted_from_cycling_lists": cov.get("planted_from_cycling_lists", {}).get("n")}
    cov.pop("trigrams", None)
    return {"inconclusive": inc, "coverage": coverage,
            "summary": ["files %s, %s physical lines, %d token-kind trigrams, %d statement triples, %s items planted from "
                        "the cycling lists" % (cov.get("files"), coverage["physical_lines"], tri, trip,
                                               coverage["planted_from_cycling_lists"])]}
