"""C09 - token and diagnostic positions are true source positions (DESIGN §4.9).

Deciding monitor: M-LEX position assertion  token.pos == refpos(src, raw_start)
(and the same for BAD_LEXEME diagnostics), where raw_start is the lexer's raw
cursor when it committed to the token and refpos recomputes line / tab-stop
column from the raw text alone.  Pipeline part: every rule diagnostic's first
highlight must be the verified position of a token of the file.
"""
from nv import lexpass, pipework

ID = "C09"
LEVEL = "exploration"
RULE = ("strings: all products over the 17-symbol alphabet a 1 SP NL TAB \\NL \" ' / * ??/NL <: ??( + = @ \\ up to "
        "the tier's length bound (enumerated completely) + seeded lexeme soups + generated programs; a case is "
        "non-trivial when at least one token starts at a raw offset > 0; distinct = distinct source text")
ASSUMPTIONS = ["refpos (12 lines) is the reference for line/column", "the raw cursor at the last line_pos() call "
               "that returned the token's position is the token's first character"]
KINDS = {"POS", "BADLEX_POS"}
WORKER_TIMEOUT = {"quick": 600, "thorough": 3600}


def plan(tier, seed):
    n = 16
    maxlen = 5 if tier == "quick" else 6
    specs = [{"mode": "product", "alpha": "pos", "maxlen": maxlen, "shard": i, "nshards": n * (1 if tier == "quick" else 4)}
             for i in range(n * (1 if tier == "quick" else 4))]
    nsoup = 2500 if tier == "quick" else 40000
    specs += [{"mode": "soup", "seed": seed, "shard": i, "n": nsoup} for i in range(n)]
    specs += [{"mode": "product_sample", "alpha": "pos", "len": L, "seed": seed, "shard": i, "n": 4000 if tier == "quick" else 60000}
              for i, L in enumerate([7, 8, 9, 10, 12, 14, 16, 20])]
    # containers (comments, literals with every prefix, directive bodies; closed and left open) x payload sequences
    specs += [{"mode": "grammar", "seed": seed, "shard": i, "nshards": 8, "maxlen": 2 if tier == "quick" else 3,
               "sample": 1500 if tier == "quick" else 40000} for i in range(8)]
    specs += pipework.plan_programs(tier, seed, "C09", nshards=8, per_shard=60 if tier == "quick" else 1200)
    return specs


def _nontrivial(s, src):
    return s.asserts.get("lex.position", 0) >= 2


def run_shard(spec):
    if spec["mode"] == "programs":
        return pipework.run_positions(spec).result()
    sh = lexpass.run_pass(spec, KINDS, nontrivial=_nontrivial)
    return sh.result()


def replay(case, sh):
    if case.get("mode") == "lex":
        r = lexpass.run_pass({"mode": "list", "items": [case["src"]]}, KINDS)
        sh.violations += r.violations
        sh.evaluations += 1
    else:
        pipework.replay_positions(case, sh)


def finish(merged, tier, seed):
    a = merged["asserts"]
    inc = []
    if a.get("lex.position", 0) < 100000:
        inc.append("position assertion evaluated only %d times" % a.get("lex.position", 0))
    if a.get("lex.bad_lexeme_position", 0) < 1000:
        inc.append("bad-lexeme position assertion evaluated only %d times" % a.get("lex.bad_lexeme_position", 0))
    if a.get("diag.highlight_is_token_position", 0) < 50:
        inc.append("diagnostic-position assertion evaluated only %d times" % a.get("diag.highlight_is_token_position", 0))
    maxlen = 5 if tier == "quick" else 6
    return {"inconclusive": inc,
            "coverage": {"exhaustive_subspaces": ["all strings of length <= %d over the 17-symbol position alphabet" % maxlen],
                         "outcomes": merged["cov"].get("outcomes"),
                         "token_types_seen": merged["cov"].get("token_types")},
            "summary": ["position assertions: %d tokens, %d bad lexemes, %d rule diagnostics" % (
                a.get("lex.position", 0), a.get("lex.bad_lexeme_position", 0), a.get("diag.highlight_is_token_position", 0))]}
