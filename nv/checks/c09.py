"""C09 - token and diagnostic positions are true source positions (DESIGN §4.9).

Deciding monitor: M-LEX position assertion  token.pos == refpos(src, raw_start)
(and the same for BAD_LEXEME diagnostics), where raw_start is the lexer's raw
cursor when it committed to the token and refpos recomputes line / tab-stop
column from the raw text alone.  Pipeline part: every rule diagnostic's first
highlight must be the verified position of a token of the file.
"""
from nv import lexpass, pipework

ID = "C09"
LEVEL = "exploration"
RULE = ("strings: all products over the 17-symbol alphabet a 1 SP NL TAB \\NL \" ' / * ??/NL <: ??( + = @ \\ up to "
        "the tier's length bound (enumerated completely) + seeded lexeme soups + generated programs; a case is "
        "non-trivial when at least one token starts at a raw offset > 0; distinct = distinct source text")
ASSUMPTIONS = ["refpos (12 lines) is the reference for line/column", "the raw cursor at the last line_pos() call "
               "that returned the token's position is the token's first character"]
KINDS = {"POS", "BADLEX_POS"}
WORKER_TIMEOUT = {"quick": 600, "thorough": 3600}


def plan(tier, seed):
    n = 16
    maxlen = 5 if tier == "quick" else 6
    specs = [{"mode": "product", "alpha": "pos", "maxlen": maxlen, "shard": i, "nshards": n * (1 if tier == "quick" else 4)}
             for i in range(n * (1 if tier == "quick" else 4))]
    nsoup = 2500 if tier == "quick" else 40000
    specs += [{"mode": "soup", "seed": seed, "shard": i, "n": nsoup} for i in range(n)]
    specs += [{"mode": "product_sample", "alpha": "pos", "len": L, "seed": seed, "shard": i, "n": 4000 if tier == "quick" else 60000}
              for i, L in enumerate([7, 8, 9, 10, 12, 14, 16, 20])]
    # very long runs of one unit (splices, quotes, stray characters ...) at one place
    specs += [{"mode": "runs", "shard": i, "nshards": 4} for i in range(4)]
    # every keyword-like identifier, alone and between tokens
    specs += [{"mode": "list", "items": [w for w in __import__("nv.gen.lex", fromlist=["x"]).NEAR_KEYWORDS] +
               ["a %s b;" % w for w in __import__("nv.gen.lex", fromlist=["x"]).NEAR_KEYWORDS]}]
    # containers (comments, literals with every prefix, directive bodies; closed and left open) x payload sequences
    specs += [{"mode": "grammar", "seed": seed, "shard": i, "nshards": 8, "maxlen": 2 if tier == "quick" else 3,
               "sample": 1500 if tier == "quick" else 40000} for i in range(8)]
    specs += pipework.plan_programs(tier, seed, "C09", nshards=8, per_shard=60 if tier == "quick" else 1200)
    # the positions the command line prints, for files analysed next to copies of themselves in one run
    specs += [{"mode": "cli_copies", "seed": seed, "shard": i, "n": 6 if tier == "quick" else 60} for i in range(4)]
    return specs


def _nontrivial(s, src):
    return s.asserts.get("lex.position", 0) >= 2


def run_cli_copies(spec):
    """printed (line, column) of every diagnostic = the position the in-process monitors saw for the same content,
    for a file alone, for two copies of it under different names in one run, and for the same path twice"""
    import os
    import random
    import shutil
    import tempfile
    from nv import core, cliobs, oracle
    from nv.checks import c17
    from nv.run import Shard
    sh = Shard(max_per_sig=3)
    r = random.Random("c09cli/%s/%d" % (spec["seed"], spec["shard"]))
    progs = [p for p, _ in c17.long_comment_programs({"seed": spec["seed"], "shard": spec["shard"], "n": spec["n"] * 6}, r)]
    rng = random.Random("c09v/%s/%d" % (spec["seed"], spec["shard"]))
    for p, tag in pipework.base_programs({"seed": spec["seed"], "shard": 4000 + spec["shard"], "n": spec["n"]}):
        for q, o, _ in pipework.sampled_variants(p, rng, 1):
            progs.append(q)
    for k, p in enumerate(progs):
        src = p.text()
        ref = core.api_run(p.name, src, clock=False)
        if ref.outcome != "ok":
            continue
        want = sorted((d[0], d[2], d[3]) for d in ref.diags)
        d = tempfile.mkdtemp(prefix="nv_c09_")
        try:
            ext = p.name.rsplit(".", 1)[-1]
            if ext == "h":
                continue        # a header's guard follows its name: a copy under another name is another file
            names = [p.name, "copy_one." + ext, "copy_two." + ext]
            for n in names:
                with open(os.path.join(d, n), "w", encoding="utf-8") as f:
                    f.write(src)
            run = cliobs.run_cli(["--no-colors"] + names + [names[0]], cwd=d, trace=False)
            sh.case("copies\0" + src)
            sh.count("cli.printed_positions_equal_monitored_positions")
            sh.tally("outcomes", "cli_copies")
            if run.timeout or run.traceback():
                sh.violation("cli_failed", ("copies",), {"mode": "cli_copies", "name": p.name, "src": src}, {"stderr": run.stderr[-300:]})
                continue
            try:
                files = oracle.parse_humanized(run.stdout)
            except oracle.ReportParseError as e:
                sh.violation("cli_unparsable", ("copies",), {"mode": "cli_copies", "name": p.name, "src": src}, {"error": str(e)[:200]})
                continue
            for idx, f in enumerate(files):
                got = sorted((x[0], x[2], x[3]) for x in f["diags"])
                if got != want:
                    sh.violation("printed_position_differs", ("copy_%d" % idx,), {"mode": "cli_copies", "name": p.name, "src": src},
                                 {"file": f["name"], "index_in_run": idx, "only_printed": [x for x in got if x not in want][:4],
                                  "only_monitored": [x for x in want if x not in got][:4]})
        finally:
            shutil.rmtree(d, ignore_errors=True)
    return sh


def run_shard(spec):
    if spec["mode"] == "cli_copies":
        return run_cli_copies(spec).result()
    if spec["mode"] == "programs":
        return pipework.run_positions(spec).result()
    sh = lexpass.run_pass(spec, KINDS, nontrivial=_nontrivial)
    return sh.result()


def replay(case, sh):
    if case.get("mode") == "cli_copies":
        import os, shutil, tempfile
        from nv import core, cliobs, oracle
        ref = core.api_run(case["name"], case["src"], clock=False)
        want = sorted((d[0], d[2], d[3]) for d in ref.diags)
        d = tempfile.mkdtemp(prefix="nv_c09r_")
        try:
            ext = case["name"].rsplit(".", 1)[-1]
            names = [case["name"], "copy_one." + ext, "copy_two." + ext]
            for n in names:
                with open(os.path.join(d, n), "w", encoding="utf-8") as f:
                    f.write(case["src"])
            run = cliobs.run_cli(["--no-colors"] + names + [names[0]], cwd=d, trace=False)
            sh.evaluations += 1
            for idx, f in enumerate(oracle.parse_humanized(run.stdout)):
                if sorted((x[0], x[2], x[3]) for x in f["diags"]) != want:
                    sh.violation("printed_position_differs", ("replay",), case, {"index_in_run": idx})
        finally:
            shutil.rmtree(d, ignore_errors=True)
        return
    if case.get("mode") == "lex":
        r = lexpass.run_pass({"mode": "list", "items": [case["src"]]}, KINDS)
        sh.violations += r.violations
        sh.evaluations += 1
    else:
        pipework.replay_positions(case, sh)


def finish(merged, tier, seed):
    a = merged["asserts"]
    inc = []
    if a.get("lex.position", 0) < 100000:
        inc.append("position assertion evaluated only %d times" % a.get("lex.position", 0))
    if a.get("lex.bad_lexeme_position", 0) < 1000:
        inc.append("bad-lexeme position assertion evaluated only %d times" % a.get("lex.bad_lexeme_position", 0))
    if a.get("diag.highlight_is_token_position", 0) < 50:
        inc.append("diagnostic-position assertion evaluated only %d times" % a.get("diag.highlight_is_token_position", 0))
    maxlen = 5 if tier == "quick" else 6
    return {"inconclusive": inc,
            "coverage": {"exhaustive_subspaces": ["all strings of length <= %d over the 17-symbol position alphabet" % maxlen],
                         "outcomes": merged["cov"].get("outcomes"),
                         "token_types_seen": merged["cov"].get("token_types")},
            "summary": ["position assertions: %d tokens, %d bad lexemes, %d rule diagnostics" % (
                a.get("lex.position", 0), a.get("lex.bad_lexeme_position", 0), a.get("diag.highlight_is_token_position", 0))]}
