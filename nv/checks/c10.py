"""C10 - tokenization is lossless (DESIGN §4.10).

Deciding monitor: M-LEX consumption and text assertions.  For every token the
raw span [raw_start, raw_end) it consumed is known from the lexer's cursor;
spans must be non-empty, in order and gap-free (a gap may only hold line
splices and characters reported as BAD_LEXEME), the last span must end at the
end of the input, and N(token text) == N(raw span) where N is the reference
normaliser (splices removed, trigraphs/digraphs mapped, tabs in block comments
expanded to the next tab stop).
"""
from nv import lexpass, pipework, core
from nv.run import Shard
import random

ID = "C10"
LEVEL = "exploration"
RULE = ("strings: all products over the 17-symbol alphabet a 1 SP NL TAB \\NL \" ' / * ??/NL <: ??( + = @ \\ up to "
        "the tier's length bound (enumerated completely) + seeded lexeme soups + long products + generated programs; "
        "non-trivial = the lexer produced at least one token; distinct = distinct source text")
ASSUMPTIONS = ["normalise()/_expand_comment (reference normaliser) define the documented normalisations",
               "the raw cursor before/after get_next_token delimits what a token consumed"]
KINDS = {"NO_PROGRESS", "OVERLAP", "DROPPED", "TEXT", "TABEXP", "STOPPED_EARLY", "PHANTOM_BADLEX", "NOSPELL", "NOSTART",
         "SPLICE_AS_NEWLINE"}
WORKER_TIMEOUT = {"quick": 600, "thorough": 3600}


def plan(tier, seed):
    n = 16
    maxlen = 5 if tier == "quick" else 6
    k = n * (1 if tier == "quick" else 4)
    specs = [{"mode": "product", "alpha": "pos", "maxlen": maxlen, "shard": i, "nshards": k} for i in range(k)]
    nsoup = 2500 if tier == "quick" else 40000
    specs += [{"mode": "soup", "seed": seed, "shard": i, "n": nsoup} for i in range(n)]
    specs += [{"mode": "product_sample", "alpha": a, "len": L, "seed": seed, "shard": i, "n": 4000 if tier == "quick" else 60000}
              for i, (a, L) in enumerate([("pos", 7), ("pos", 9), ("pos", 12), ("pos", 16), ("total", 5), ("total", 7),
                                          ("total", 10), ("total", 14)])]
    # very long runs of one unit (splices, quotes, stray characters ...) at one place
    specs += [{"mode": "runs", "shard": i, "nshards": 4} for i in range(4)]
    # every keyword-like identifier, alone and between tokens
    specs += [{"mode": "list", "items": [w for w in __import__("nv.gen.lex", fromlist=["x"]).NEAR_KEYWORDS] +
               ["a %s b;" % w for w in __import__("nv.gen.lex", fromlist=["x"]).NEAR_KEYWORDS]}]
    # containers (comments, literals with every prefix, directive bodies; closed and left open) x payload sequences
    specs += [{"mode": "grammar", "seed": seed, "shard": i, "nshards": 8, "maxlen": 2 if tier == "quick" else 3,
               "sample": 1500 if tier == "quick" else 40000} for i in range(8)]
    specs += pipework.plan_programs(tier, seed, "C10", nshards=8, per_shard=60 if tier == "quick" else 1200)
    return specs


def run_programs(spec):
    sh = Shard()
    rng = random.Random("c10/" + pipework.prog_seed(spec, -1))
    for p, tag in pipework.base_programs(spec):
        progs = [(p, tag)] + [(q, tag + "+" + o["name"]) for q, o, _ in pipework.sampled_variants(p, rng, 2)]
        for q, t in progs:
            src = q.text()
            case = {"name": q.name, "src": src, "mode": "lex"}
            r = core.api_run(q.name, src, lex_only=True, clock=False)
            sh.case(src, nontrivial=r.sess.asserts.get("lex.progress", 0) > 0)
            sh.add_asserts({k: v for k, v in r.sess.asserts.items() if k.startswith("lex.")})
            pipework.monitor_failures(sh, r, case, kinds_lex=KINDS)
            sh.tally("outcomes", "program:" + r.outcome)
    return sh


def run_shard(spec):
    if spec["mode"] == "programs":
        return run_programs(spec).result()
    return lexpass.run_pass(spec, KINDS).result()


def replay(case, sh):
    r = lexpass.run_pass({"mode": "list", "items": [case["src"]]}, KINDS)
    sh.violations += r.violations
    sh.evaluations += 1


def finish(merged, tier, seed):
    a = merged["asserts"]
    inc = []
    for name, floor in (("lex.text", 100000), ("lex.monotone", 100000), ("lex.bad_lexeme_reported", 1000),
                        ("lex.end_reached", 10000)):
        if a.get(name, 0) < floor:
            inc.append("%s evaluated only %d times" % (name, a.get(name, 0)))
    maxlen = 5 if tier == "quick" else 6
    return {"inconclusive": inc,
            "coverage": {"exhaustive_subspaces": ["all strings of length <= %d over the 17-symbol alphabet" % maxlen],
                         "outcomes": merged["cov"].get("outcomes"),
                         "lexer_exceptions_not_counted": merged["cov"].get("lexer_exceptions")},
            "summary": ["text/consumption assertions on %d tokens; %d skipped characters checked against BAD_LEXEME events; "
                        "%d inputs checked to be consumed to their end" % (a.get("lex.text", 0),
                                                                          a.get("lex.bad_lexeme_reported", 0),
                                                                          a.get("lex.end_reached", 0))]}
