"""C15 - exactly the requested C sources are checked (DESIGN §4.15).

Workload: generated directory trees (nesting, names with spaces, dots and
glob metacharacters, look-alike suffixes, directories named like sources,
empty directories, non-C files) and argument lists of files, directories,
repeated items, missing paths and non-C files; no argument (cwd = tree root);
with and without .gitignore in a `git init` tree.
Oracle: an independent walk of the tree gives the expected multiset of
sources per mention.  Views compared (M-CLI + M-IO): the `open` audit events
of the child (which source files were read, how often), the verdict lines,
the rejection messages and the exit status.
"""
import os
import random
import shutil
import subprocess
import tempfile

from nv import cliobs, oracle
from nv.run import Shard

ID = "C15"
LEVEL = "exploration"
RULE = ("random trees of depth <= 4 with hostile names x argument lists of 0-5 items; every .c/.h file is a tiny source; "
        "non-trivial = the expected selection or the argument list is non-empty; distinct = distinct (tree, argv)")
ASSUMPTIONS = ["expected selection = regular files whose name ends in .c or .h, once per mention (independent os.walk)",
               "the pathological names `.c` / `.h` (empty stem) are not generated", "git is needed for the --use-gitignore cases"]
WORKER_TIMEOUT = {"quick": 900, "thorough": 3600}

SRC = "int\tmain(void)\n{\n\treturn (0);\n}\n"
STEMS = ["a", "main", "my file", "x.y", "lib.v2", ".hidden", "UP", "a b c", "d[1]", "q?", "st*r", "tab\tname", "é", "-dash",
         "file.c", "c", "h", "0", "a.h", "..x"]
SUFFIXES = [".c", ".h", ".c", ".h", ".cc", ".hh", ".C", ".H", ".c.bak", ".ch", "c", "h", ".txt", "", ".cpp", ".o", ".c~"]
DIRNAMES = ["src", "inc", "sub dir", "x.c", "y.h", ".git2", ".hid", "d[1]", "q?", "st*r", "deep", "a.b", "UP", "lib.c"]


def plan(tier, seed):
    q = tier == "quick"
    return [{"mode": "trees", "seed": seed, "shard": i, "n": 9 if q else 150} for i in range(16)]


def make_tree(root, r):
    """-> list of relative paths of regular files, list of relative dirs"""
    files, dirs = [], [""]

    def fill(rel, depth):
        used = set()
        for _ in range(r.randint(0, 5)):
            nm = r.choice(STEMS) + r.choice(SUFFIXES)
            if nm in used or nm in (".c", ".h", "", ".", ".."):
                continue
            used.add(nm)
            p = os.path.join(rel, nm)
            with open(os.path.join(root, p), "w") as f:
                f.write(SRC)
            files.append(p)
        if depth < 4:
            for _ in range(r.randint(0, 3 if depth < 2 else 1)):
                dn = r.choice(DIRNAMES)
                if dn in used:
                    continue
                used.add(dn)
                p = os.path.join(rel, dn)
                os.mkdir(os.path.join(root, p))
                dirs.append(p)
                if r.random() < 0.85:
                    fill(p, depth + 1)
    fill("", 0)
    return files, dirs


def is_source(name):
    return name.endswith(".c") or name.endswith(".h")


def expected_for(root, arg):
    """('files', [relative paths]) | ('reject', basename) | ('missing',)"""
    p = os.path.join(root, arg)
    if not os.path.lexists(p):
        return ("missing",)
    if os.path.isfile(p):
        if is_source(os.path.basename(p)):
            return ("files", [arg])
        return ("reject", os.path.basename(p))
    out = []
    for dp, dns, fns in os.walk(p, followlinks=True):
        for fn in fns:
            if is_source(fn) and os.path.isfile(os.path.join(dp, fn)):
                out.append(os.path.join(dp, fn))
    return ("files", out)


def expected_visible(root, arg):
    """like expected_for, but a directory walk skips every name that starts with a dot"""
    p = os.path.join(root, arg)
    if os.path.isfile(p):
        return [arg] if is_source(os.path.basename(p)) else []
    out = []
    for dp, dns, fns in os.walk(p, followlinks=True):
        dns[:] = [d for d in dns if not d.startswith(".")]
        for fn in fns:
            if is_source(fn) and not fn.startswith(".") and os.path.isfile(os.path.join(dp, fn)):
                out.append(os.path.join(dp, fn))
    return out


def hidden_component(rel, arg):
    """a path component below the directory argument starts with a dot"""
    base = os.path.normpath(arg)
    r = os.path.normpath(rel)
    tail = os.path.relpath(r, base) if base != "." else r
    return any(c.startswith(".") and c not in (".", "..") for c in tail.split(os.sep))


def run_case(sh, root, args, opts, r, gitignored=None, label="args"):
    args = ["./" + a if a.startswith("-") else a for a in args]     # a name, not an option
    run = cliobs.run_cli(["--no-colors"] + opts + args, cwd=root, timeout=120)
    sh.case(label + "\0" + "\0".join(args) + "\0" + "\0".join(sorted(os.listdir(root))) + repr(gitignored))
    sh.count("c15.selection_equals_walk")
    sh.tally("cases", label)
    tree = []
    links = []
    for dp, dns, fns in os.walk(root):
        for fn in fns:
            tree.append(os.path.relpath(os.path.join(dp, fn), root))
        for dn in dns:
            if os.path.islink(os.path.join(dp, dn)):
                up = os.path.join(dp, dn, "..")
                links.append([os.path.relpath(os.path.join(dp, dn), root), sorted(os.listdir(os.path.join(dp, dn))),
                              sorted(f for f in os.listdir(up) if os.path.isfile(os.path.join(up, f)))])
    case = {"mode": "tree", "argv": opts + args, "tree": sorted(tree), "label": label, "gitignore": gitignored, "dir_links": links}
    if run.timeout or run.trace is None and not run.traceback():
        sh.inconclusive.append("CLI run gave no trace")
        return
    detail = {"argv": opts + args, "rc": run.rc, "label": label}
    if run.traceback():
        detail["stderr"] = run.stderr[-300:]
        sh.violation("traceback", (label,), case, detail)
        return
    exp = []
    rejects = []
    missing = None
    eff_args = args if args else ["."]
    for a in eff_args:
        e = expected_for(root, a)
        if e[0] == "missing":
            missing = a
            break
        if e[0] == "reject":
            rejects.append(e[1])
        else:
            exp += e[1]
    exp_names = None

    def real(x):
        """the file the operating system reaches through this path (links and `..` resolved as the kernel does),
        relative to the tree when it lies inside it"""
        rp = os.path.realpath(os.path.join(root, x))
        rr = os.path.realpath(root)
        return os.path.relpath(rp, rr) if rp.startswith(rr + os.sep) else rp
    pairs = [(real(x), os.path.basename(x)) for x in exp]
    if gitignored is not None:
        pairs = [(x, b) for x, b in pairs if x not in gitignored]
    exp = [x for x, _ in pairs]
    exp_names = [b for _, b in pairs]
    opened = [x[1] for x in (run.trace or {}).get("io", []) if x[0] == "open" and x[1] and not x[1].startswith("/")]
    opened_names = [os.path.basename(x) for x in opened if not x.endswith(".json")]
    opened = [real(x) for x in opened if not x.endswith(".json")]
    if missing is not None:
        sh.count("c15.missing_path_aborts")
        if run.rc in (0, None):
            detail["missing"] = missing
            sh.violation("missing_path", (str(run.rc),), case, detail)
        return
    for b in rejects:
        sh.count("c15.non_c_file_rejected")
        # some message naming the file, in whatever words, that is not a verdict line
        named = [l for l in (run.stdout + "\n" + run.stderr).split("\n")
                 if (b in l or repr(b)[1:-1] in l) and not l.rstrip().endswith((": OK!", ": Error!"))]
        if not named:
            detail["rejected"] = b
            sh.violation("no_rejection_message", (), case, detail)
    # verdict lines
    import re
    keep = re.compile(r"^(.*: (OK|Error)!|(Error|Notice): \S+ +\(line: .*)$")
    out_lines = [l for l in run.stdout.split("\n") if keep.match(re.sub(r"\x1b\[[0-9;]*m", "", l))]
    try:
        files = oracle.parse_humanized("\n".join(out_lines))
    except oracle.ReportParseError as e:
        detail["error"] = str(e)
        sh.violation("unparsable_output", (), case, detail)
        return
    got_names = sorted(f["name"] for f in files)
    want_names = sorted(exp_names)
    got_open = sorted(opened)
    want_open = sorted(exp)
    if got_open != want_open or got_names != want_names:
        miss = sorted(set(want_open) - set(got_open))
        extra = sorted(set(got_open) - set(want_open))
        dup = sorted(set(x for x in got_open if got_open.count(x) > want_open.count(x) and x in want_open))
        detail.update({"missing": miss[:5], "extra": extra[:5], "too_often": dup[:5], "n_expected": len(want_open), "n_opened": len(got_open)})
        vis = []
        for a in eff_args:
            vis += expected_visible(root, a)
        vp = [(real(x), os.path.basename(x)) for x in vis]
        if gitignored is not None:
            vp = [(x, b) for x, b in vp if x not in gitignored]
        detail["only_hidden_missing"] = (sorted(x for x, _ in vp) == got_open and got_names == sorted(b for _, b in vp))
        detail["verdict_lines_match_opens"] = got_names == sorted(opened_names)
        sh.violation("selection", ("missing" if miss else "", "extra" if extra else "", "dup" if dup else "", label), case, detail)
    sh.count("c15.each_checked_once_per_mention")


def run_shard(spec):
    sh = Shard(max_per_sig=3)
    r = random.Random("c15/%s/%d" % (spec["seed"], spec["shard"]))
    have_git = shutil.which("git") is not None
    exts = []
    for k in range(spec["n"]):
        root = tempfile.mkdtemp(prefix="nv_c15_")
        try:
            files, dirs = make_tree(root, r)
            if k % 2 == 1:
                # links: a directory outside the tree linked below it, a source linked under another name
                # ("found recursively under a named directory" is read path-wise, as the file system resolves paths)
                ext_root = tempfile.mkdtemp(prefix="nv_c15x_")
                exts.append(ext_root)
                ext = os.path.join(ext_root, "pkg", "lib")
                os.makedirs(ext)
                for nm in r.sample(["v.c", "v.h", "notes.txt", "w x.c", ".dot.c"], r.randint(1, 4)):
                    with open(os.path.join(ext, nm), "w") as f:
                        f.write(SRC)
                # what `<link>/..` reaches: the parent of the link's *target*, not the directory the link lives in
                for nm in r.sample(["up.c", "up.h", "readme", "main.c"], r.randint(1, 3)):
                    with open(os.path.join(ext_root, "pkg", nm), "w") as f:
                        f.write(SRC)
                where = r.choice(dirs)
                ln = os.path.join(where, r.choice(["vendor", "lnk.c", "ext lib"]))
                if not os.path.lexists(os.path.join(root, ln)):
                    os.symlink(ext, os.path.join(root, ln))
                    dirs.append(ln)
                    sh.tally("cases", "tree_with_directory_link")
                srcs0 = [f for f in files if is_source(os.path.basename(f))]
                if srcs0:
                    fl = os.path.join(r.choice(dirs), "flink.c")
                    if not os.path.lexists(os.path.join(root, fl)):
                        os.symlink(os.path.abspath(os.path.join(root, srcs0[0])), os.path.join(root, fl))
                        files.append(fl)
            items = files + [d for d in dirs if d]
            # (1) several argument lists on this tree
            for _ in range(5):
                n = r.randint(1, 5)
                args = []
                for _ in range(n):
                    x = r.random()
                    if x < 0.5 and files:
                        args.append(r.choice(files))
                    elif x < 0.85 and len(dirs) > 1:
                        args.append(r.choice(dirs[1:]))
                    elif x < 0.9:
                        args.append(".")
                    elif x < 0.95 and args:
                        args.append(args[0])
                    else:
                        args.append(r.choice(["nope.c", "no/such/dir", "ghost"]))
                links = [d for d in dirs if d and os.path.islink(os.path.join(root, d))]
                if links and r.random() < 0.5:
                    # through a linked directory and back up: the kernel resolves `..` from the link's target
                    ln = r.choice(links)
                    up = os.path.join(root, ln, "..")
                    cands = [f for f in os.listdir(up) if os.path.isfile(os.path.join(up, f))] if os.path.isdir(up) else []
                    args.append(os.path.join(ln, "..", r.choice(cands)) if cands and r.random() < 0.7 else os.path.join(ln, ".."))
                    sh.tally("cases", "argument_through_link_and_up")
                args = [a + "/" if os.path.isdir(os.path.join(root, a)) and r.random() < 0.2 and a != "." else a for a in args]
                args = ["./" + a if a.startswith("-") else a for a in args]     # not an option
                run_case(sh, root, args, [], r, label="args")
            # (2) no argument
            run_case(sh, root, [], [], r, label="no_argument")
            # (3) --use-gitignore
            if have_git and k % 2 == 0:
                subprocess.run(["git", "init", "-q", "."], cwd=root, stdout=subprocess.DEVNULL, stderr=subprocess.DEVNULL)
                pats = []
                srcs = [f for f in files if is_source(os.path.basename(f)) and not any(ch in f for ch in "[]*?!#\\\t")
                        and not f.endswith(" ")]
                for f in r.sample(srcs, min(len(srcs), 2)):
                    pats.append("/" + f)
                if len(dirs) > 1 and r.random() < 0.5:
                    dd = [d for d in dirs[1:] if not any(ch in d for ch in "[]*?!#\\\t")]
                    if dd:
                        pats.append("/" + r.choice(dd) + "/")
                with open(os.path.join(root, ".gitignore"), "w") as f:
                    f.write("\n".join(pats) + "\n")
                # a source that matches an ignore rule but is tracked is not ignored (git never ignores what it tracks)
                forced = [f for f in pats if not f.endswith("/")][:1] if k % 4 == 0 else []
                for f in forced:
                    subprocess.run(["git", "add", "-f", "--", f.lstrip("/")], cwd=root, stdout=subprocess.DEVNULL, stderr=subprocess.DEVNULL)
                    sh.tally("cases", "tracked_file_matching_an_ignore_rule")
                p = subprocess.run(["git", "ls-files", "-z", "-oi", "--exclude-standard"], cwd=root, stdout=subprocess.PIPE,
                                   stderr=subprocess.DEVNULL)
                ignored = set(os.path.normpath(x) for x in p.stdout.decode("utf-8", "surrogateescape").split("\0") if x)
                # quoted names (git quotes unusual characters) are left out of the expectation by construction of pats
                args = [r.choice(dirs[1:])] if len(dirs) > 1 and r.random() < 0.5 else ["."]
                run_case(sh, root, args, ["--use-gitignore"], r, gitignored=ignored, label="gitignore")
                # ignored and not ignored sources named explicitly, alone and next to a directory
                named = [f for f in srcs if os.path.normpath(f) in ignored][:2] + r.sample(srcs, min(len(srcs), 2))
                if named:
                    run_case(sh, root, named, ["--use-gitignore"], r, gitignored=ignored, label="gitignore_named_files")
                    run_case(sh, root, named[:1] + args, ["--use-gitignore"], r, gitignored=ignored, label="gitignore_named_files")
            sh.sample({"tree": sorted(files)[:8], "argv": "five random argument lists, none, --use-gitignore"}, cap=1)
        finally:
            shutil.rmtree(root, ignore_errors=True)
            for e in exts:
                shutil.rmtree(e, ignore_errors=True)
            del exts[:]
    return sh.result()


def replay(case, sh):
    root = tempfile.mkdtemp(prefix="nv_c15r_")
    try:
        for rel in case["tree"]:
            os.makedirs(os.path.join(root, os.path.dirname(rel)), exist_ok=True)
            with open(os.path.join(root, rel), "w") as f:
                f.write(SRC if rel != ".gitignore" else "")
        ext = None
        for entry in case.get("dir_links") or []:
            rel, names = entry[0], entry[1]
            ext_root = tempfile.mkdtemp(prefix="nv_c15x_")
            ext = os.path.join(ext_root, "pkg", "lib")
            os.makedirs(ext)
            for nm in names:
                with open(os.path.join(ext, nm), "w") as f:
                    f.write(SRC)
            for nm in (entry[2] if len(entry) > 2 else []):
                with open(os.path.join(ext_root, "pkg", nm), "w") as f:
                    f.write(SRC)
            os.makedirs(os.path.join(root, os.path.dirname(rel)), exist_ok=True)
            os.symlink(ext, os.path.join(root, rel))
        argv = list(case["argv"])
        opts = [a for a in argv if a == "--use-gitignore"]
        args = [a for a in argv if a != "--use-gitignore"]
        run_case(sh, root, args, [], random.Random(0), label=case.get("label", "replay"))
    finally:
        shutil.rmtree(root, ignore_errors=True)


def finish(merged, tier, seed):
    a = merged["asserts"]
    inc = []
    if a.get("c15.selection_equals_walk", 0) < 500:
        inc.append("only %d CLI runs" % a.get("c15.selection_equals_walk", 0))
    return {"inconclusive": inc, "coverage": {"cases": merged["cov"].get("cases")},
            "summary": ["cases %s" % merged["cov"].get("cases")]}
