"""C19 - diagnostics are local: unrelated text only shifts them (DESIGN §4.19).

Three relations between monitored runs of a file and an edited file, all
edit sites taken from the IR:
 (1) prepend the 42 header (+ empty line) to a headerless file:
     obs' = shift(obs minus INVALID_HEADER, +12), and obs had INVALID_HEADER exactly once;
 (2) insert a comment line before a top-level definition that follows an empty line:
     diagnostics on lines < p unchanged, the others moved down by one, none added or removed;
 (3) append an empty line and a conforming function to a .c file with fewer than five:
     obs' = obs.
"""
import random

from nv import relwork
from nv.gen import conf
from nv.gen.ir import Line, IND, SP
from nv.run import Shard

ID = "C19"
LEVEL = "exploration"
RULE = ("headerless generated files (conforming + one-violation variants with sites cycled from the top of the file, "
        "short files included) x {header prepended, comment line inserted at every top-level insertion point, function "
        "appended}; non-trivial = the base observation is a verdict; distinct = distinct text pair")
ASSUMPTIONS = ["insertion points are top-level IR items preceded by an empty line (never guessed from text)",
               "files whose violation is anchored at the end of the file are excluded from relation (3)"]
WORKER_TIMEOUT = {"quick": 600, "thorough": 3600}

EOF_ANCHORED = {"V11", "V67", "V63"}


def plan(tier, seed):
    q = tier == "quick"
    n = 16 if q else 48
    return [{"mode": "pairs", "seed": seed, "shard": i, "n": 26 if q else 220} for i in range(n)]


def shift(diags, at, by):
    return sorted((c, lv, ln + (by if ln >= at else 0), col) for (c, lv, ln, col) in diags)


def small_programs(spec):
    """extra short headerless files whose violation site is among the first statements"""
    r = random.Random("c19s/%s/%d" % (spec["seed"], spec["shard"]))
    from nv import pipework
    for k in range(spec["n"] // 2):
        g = conf.Gen("c19small/%s/%d/%d" % (spec["seed"], spec["shard"], k))
        p = g.c_file("test.c", nfuncs=r.choice([1, 1, 2]), header=False, comments=False)
        yield p, "conf:c"
        for q, o, exp in pipework.sampled_variants(p, r, 3):
            q.meta["op"] = o["id"]
            yield q, "viol:" + o["id"]


def top_shapes(spec):
    """tiny headerless files that vary what the file *begins* with (nothing, globals, prototypes, a typedef, directives,
    a comment), whether an empty line separates that from the first function, and what stands between the function's
    declarator and its `{` (comments of 1..14 lines, directives): the places where rules look back at the start of the
    file or count lines from it"""
    from nv.gen.ir import TAB, Prog
    r = random.Random("c19t/%s/%d" % (spec["seed"], spec["shard"]))

    def fn(name, between, idx):
        L = [Line("fhead", [("int", "type"), TAB(1), (name, "id:func"), ("(", "punct"), ("int", "type"), SP, ("a", "id:param"), (")", "punct")], 0, idx)]
        L += [Line("comment" if t.startswith("/") else "pp_other", [(t, "comment:multi" if "\n" in t else ("comment:block" if t.startswith("/*") else
                                                                      ("comment:line" if t.startswith("//") else "pp")))], 0, idx) for t in between]
        L += [Line("fopen", [("{", "punct")], 0, idx), Line("stmt", [IND(1), ("return", "kw"), SP, ("(", "punct"), ("a", "id:var"), (")", "punct"), (";", "punct")], 1, idx),
              Line("fclose", [("}", "punct")], 0, idx)]
        return L
    firsts = [[], [("global", "int\tg_a;")], [("global", "int\tg_a;"), ("global", "char\tg_b;")], [("proto", "int\tft_p(void);")],
              [("proto", "int\tft_p(void);"), ("proto", "int\tft_q(int a);")], [("td_simple", "typedef int\tt_x;")],
              [("pp_include", "#include <unistd.h>")], [("pp_define", "#define N 1")], [("comment", "/* top */")], [("comment", "// top")],
              [("global", "static int\tg_a = 0;"), ("proto", "int\tft_p(void);")]]
    for k in range(max(8, spec["n"])):
        first = firsts[(k + spec["shard"]) % len(firsts)]
        L = [Line(kind, [(t, "raw")]) for kind, t in first]
        if first and r.random() < 0.6:
            L.append(Line("blank", []))
        nb = r.choice([0, 0, 1, 2])
        between = []
        for j in range(nb):
            x = r.random()
            if x < 0.25:
                between.append("// c%d" % j)
            elif x < 0.45:
                between.append("/* c%d */" % j)
            elif x < 0.8:
                n = r.choice([1, 2, 3, 5, 8, 14])
                between.append("/*\n" + "".join("** line %d\n" % i for i in range(n)) + "*/")
            else:
                between.append(r.choice(["#define Y 1", "#pragma once", "#ifdef X\n#endif"]))
        L += fn("ft_one", between, 0)
        if r.random() < 0.5:
            if r.random() < 0.7:
                L.append(Line("blank", []))
            L += fn("ft_two", [], 1)
        yield Prog("test.c", L), "shape:c"


def large_shapes(spec):
    """headerless files of more than a thousand statements in which a diagnostic depends on a statement far back:
    a function right after a run of N comment lines that follows a global / a function (no empty line), a comment in a
    function of N statements, a header whose guard comes N comment lines after a declaration"""
    from nv.gen.ir import TAB, Prog
    r = random.Random("c19L/%s/%d" % (spec["seed"], spec["shard"]))
    if spec["shard"] % 4 != 3 and spec.get("n", 0) < 100:
        return
    fn = [Line("fhead", [("int", "type"), TAB(1), ("ft_far", "id:func"), ("(", "punct"), ("int", "type"), SP, ("a", "id:param"), (")", "punct")], 0, 0),
          Line("fopen", [("{", "punct")], 0, 0),
          Line("stmt", [IND(1), ("return", "kw"), SP, ("(", "punct"), ("a", "id:var"), (")", "punct"), (";", "punct")], 1, 0),
          Line("fclose", [("}", "punct")], 0, 0)]
    for n in (500, 511, 1009, 1015, 1022, 1030, 1100, 2100):
        pad = [Line("comment", [("// pad %d" % i, "comment:line")]) for i in range(n)]
        first = r.choice([[Line("global", [("int\tg_a;", "raw")])], [Line("proto", [("int\tft_p(void);", "raw")])],
                          [l.copy() for l in fn] + []])
        if first and first[0].kind == "fhead":
            first[0].segs[2] = ("ft_near", "id:func")
        yield Prog("test.c", first + pad + [l.copy() for l in fn]), "large:c"
        # a comment inside a long function, in a braceless if
        body = [Line("stmt", [IND(1), ("a", "id:var"), SP, ("+=", "op:assign"), SP, (str(i % 9), "const:int"), (";", "punct")], 1, 0)
                for i in range(n)]
        tailc = [Line("ctrl", [IND(1), ("if", "kw"), SP, ("(", "punct"), ("a", "id:var"), (")", "punct")], 1, 0, kw="if"),
                 Line("comment", [IND(2), ("/* far */", "comment:block")], 2, 0),
                 Line("stmt", [IND(2), ("a", "id:var"), ("++", "op:incdec"), (";", "punct")], 2, 0)]
        yield Prog("test.c", fn[:2] + body + tailc + fn[2:]), "large:c"


def extra_variants(spec):
    """violating families outside the C02 catalogue that change how later text is scoped: a type defined in
    a .c file after a function, with its brace on the keyword line or on its own line"""
    from nv.gen.ir import TAB
    r = random.Random("c19x/%s/%d" % (spec["seed"], spec["shard"]))
    for k in range(max(2, spec["n"] // 4)):
        g = conf.Gen("c19extra/%s/%d/%d" % (spec["seed"], spec["shard"], k))
        p = g.c_file("test.c", nfuncs=r.choice([2, 3, 4]), header=False)
        closes = [i for i, l in enumerate(p.lines) if l.kind == "fclose"][:-1]
        if not closes:
            continue
        i = r.choice(closes)
        kw = r.choice(["struct", "union", "enum"])
        tag = {"struct": "s_zz", "union": "u_zz", "enum": "e_zz"}[kw]
        member = [Line("td_member", [IND(1), ("int", "type"), TAB(1), ("a", "id:member"), (";", "punct")], 1)] if kw != "enum" \
            else [Line("td_enum_member", [IND(1), ("ZZ", "id:enumconst")], 1)]
        if r.random() < 0.6:
            head = [Line("td_head", [(kw, "kw"), SP, (tag, "id:tag"), SP, ("{", "punct")])]
        else:
            head = [Line("td_head", [(kw, "kw"), SP, (tag, "id:tag")]), Line("td_open", [("{", "punct")])]
        q = p.copy()
        q.lines[i + 1:i + 1] = [Line("blank", [])] + head + member + [Line("td_close", [("}", "punct"), (";", "punct")])]
        q.meta["op"] = "X-type-after-function"
        yield q, "viol:Xtype"
        # legal but rarely written global declarations with a parenthesised declarator, in a file with 3-4 functions
        g2 = conf.Gen("c19decl/%s/%d/%d" % (spec["seed"], spec["shard"], k))
        p2 = g2.c_file("test.c", nfuncs=r.choice([3, 4, 4]), header=False, comments=False)
        first = next(i2 for i2, l in enumerate(p2.lines) if l.kind == "fhead")
        decl = r.choice([
            [("int", "type"), TAB(1), ("(", "punct"), ("*", "op:ptr"), ("g_pick", "id:global"), ("(", "punct"), ("int", "type"), SP,
             ("n", "id:param"), (")", "punct"), (")", "punct"), (";", "punct")],
            [("int", "type"), TAB(1), ("(", "punct"), ("(", "punct"), ("*", "op:ptr"), ("g_pick", "id:global"), (")", "punct"),
             ("(", "punct"), ("int", "type"), SP, ("n", "id:param"), (")", "punct"), (")", "punct"), (";", "punct")],
            [("static int", "kw"), TAB(1), ("*", "op:ptr"), ("(", "punct"), ("*", "op:ptr"), ("g_pick", "id:global"), ("(", "punct"),
             ("int", "type"), SP, ("n", "id:param"), (")", "punct"), (")", "punct"), (";", "punct")]])
        q2 = p2.copy()
        q2.lines[first:first] = [Line("global", decl), Line("blank", [])]
        q2.meta["op"] = "X-parenthesised-declarator"
        yield q2, "viol:Xdecl"


def run_shard(spec):
    sh = Shard(max_per_sig=3)
    r = random.Random("c19/%s/%d" % (spec["seed"], spec["shard"]))
    import itertools
    header_only = "\n".join(l.text() for l in conf.Gen("h").header_lines("pred.c")) + "\n"
    for p, tag in itertools.chain(relwork.corpus(spec, header=False, nvar=4, force=("V71a",)), small_programs(spec),
                                  extra_variants(spec), top_shapes(spec), large_shapes(spec)):
        if r.random() < 0.2:
            # another file analysed just before in the same process (a header-only file, a comment-only file, nothing)
            pk = r.choice(["header_only", "comment_only", "empty"])
            relwork.obs_of("pred.c", {"header_only": header_only, "comment_only": "/* c */\n/* d */\n", "empty": ""}[pk])
            sh.tally("relations", "preceded_by_" + pk)
        base, rb = relwork.obs_of(p.name, p.text())
        if base[0] != "ok":
            sh.count("c19.base_not_a_verdict")
            continue
        diags = base[2]
        case0 = {"mode": "pair", "name": p.name, "a": p.text()}
        # (1) header
        hdr = conf.Gen("h").header_lines(p.name) + [Line("blank", [])]
        q = p.copy()
        q.lines = hdr + q.lines
        o2, _ = relwork.obs_of(q.name, q.text())
        sh.case("hdr\0" + p.text())
        sh.count("c19.header_shifts_by_12")
        sh.tally("relations", "header")
        nh = sum(1 for d in diags if d[0] == "INVALID_HEADER")
        exp = shift([d for d in diags if d[0] != "INVALID_HEADER"], 0, 12)
        if nh != 1:
            sh.violation("header_diag_count", (tag.split(":")[1], str(nh)), dict(case0, rel="header"), {"count": nh, "diags": diags[:6]})
        if o2[0] != "ok" or o2[2] != exp:
            d = relwork.diff(("ok", None, exp), o2)
            sh.violation("header_relation", (tag.split(":")[1],) + relwork.sig_of_diff(d), dict(case0, rel="header", b=q.text()), d)
        # (2) comment lines
        pts = [i for i, l in enumerate(p.lines) if i > 0 and p.lines[i - 1].kind == "blank"
               and l.kind in ("fhead", "proto", "global", "td_head")]
        if tag.startswith("large"):
            pts = [i for i in (1, len(p.lines) // 2) if p.lines[i].kind in ("comment", "fhead", "global", "proto") and p.lines[i].depth == 0
                   and p.lines[i].func in (-1, 0) and not any(l.kind == "fopen" for l in p.lines[:i])]
        for i in pts:
            q = p.copy()
            c = r.choice([("/* note */", "comment:block"), ("// note", "comment:line")])
            q.lines.insert(i, Line("comment", [c]))
            at = p.lineno(i)
            o2, _ = relwork.obs_of(q.name, q.text())
            sh.case("cmt\0%d\0" % i + p.text())
            sh.count("c19.comment_line_shifts_later_diagnostics")
            sh.tally("relations", "comment")
            exp = shift(diags, at, 1)
            if o2[0] != "ok" or o2[2] != exp or o2[1] != base[1]:
                d = relwork.diff(("ok", base[1], exp), o2)
                d["inserted_before_line"] = at
                sh.violation("comment_relation", (tag.split(":")[1], p.lines[i].kind) + relwork.sig_of_diff(d),
                             dict(case0, rel="comment", b=q.text()), d)
        # (3) append a function
        nf = sum(1 for l in p.lines if l.kind == "fhead")
        if p.ftype == "c" and nf < 5 and p.lines and p.lines[-1].kind == "fclose" and p.meta.get("op") not in EOF_ANCHORED:
            q = p.copy()
            q.lines += [Line("blank", []),
                        Line("fhead", [("void", "type"), ("\t", "ws:tab"), ("zz_tail", "id:func"), ("(", "punct"),
                                       ("void", "type"), (")", "punct")], 0, 99),
                        Line("fopen", [("{", "punct")], 0, 99),
                        Line("stmt", [IND(1), ("return", "kw"), SP, (";", "punct")], 1, 99),
                        Line("fclose", [("}", "punct")], 0, 99)]
            o2, _ = relwork.obs_of(q.name, q.text())
            sh.case("app\0" + p.text())
            sh.count("c19.appended_function_changes_nothing")
            sh.tally("relations", "append")
            if o2 != base:
                d = relwork.diff(base, o2)
                sh.violation("append_relation", (tag.split(":")[1],) + relwork.sig_of_diff(d), dict(case0, rel="append", b=q.text()), d)
        sh.sample({"file_head": p.text()[:160], "insertion_points": len(pts)}, cap=1)
    return sh.result()


def replay(case, sh):
    a, _ = relwork.obs_of(case["name"], case["a"])
    sh.evaluations += 1
    if "b" not in case:
        nh = sum(1 for d in (a[2] or []) if d[0] == "INVALID_HEADER")
        if nh != 1:
            sh.violation("header_diag_count", ("replay",), case, {"count": nh})
        return
    b, _ = relwork.obs_of(case["name"], case["b"])
    # the relation is re-derived from the two texts: common prefix length gives the insertion line
    la, lb = case["a"].split("\n"), case["b"].split("\n")
    k = 0
    while k < len(la) and k < len(lb) and la[k] == lb[k]:
        k += 1
    by = len(lb) - len(la)
    if case.get("rel") == "append":
        exp = a
    elif case.get("rel") == "header":
        exp = ("ok", None, shift([d for d in a[2] if d[0] != "INVALID_HEADER"], 0, 12)) if a[0] == "ok" else a
        b = (b[0], None, b[2])
    else:
        exp = ("ok", a[1], shift(a[2], k + 1, by)) if a[0] == "ok" else a
    if b != exp:
        sh.violation(case.get("rel", "pair") + "_relation", ("replay",), case, relwork.diff(exp, b))


def finish(merged, tier, seed):
    a = merged["asserts"]
    inc = []
    for k, floor in (("c19.header_shifts_by_12", 300), ("c19.comment_line_shifts_later_diagnostics", 300),
                     ("c19.appended_function_changes_nothing", 150)):
        if a.get(k, 0) < floor:
            inc.append("%s evaluated only %d times" % (k, a.get(k, 0)))
    return {"inconclusive": inc, "coverage": {"relations": merged["cov"].get("relations")},
            "summary": ["relations checked: %s" % merged["cov"].get("relations")]}
