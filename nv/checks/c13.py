"""C13 - the 42 header is recognised exactly (DESIGN §4.13).

Workload: the stdheader template re-implemented from its published layout
(oracle.header42_lines) with random login, mail domain, file name and time
stamps, in front of generated conforming bodies; and the single structural
mutations the property lists.  Deciding monitor: M-DIAG - the number of
INVALID_HEADER events must be 0 for every template instance and exactly 1 for
every mutant.
"""
import random
import string

from nv import core
from nv.gen import conf
from nv.gen.ir import Line
from nv.oracle import header42_lines, textline, ART
from nv.run import Shard

ID = "C13"
LEVEL = "exploration"
RULE = ("template instances: login over [a-z0-9_.-]{1,12}, random mail domain, file name of 1-60 characters "
        "(truncated as the plugin does), time stamps over 1970-2099, both file types, any generated conforming body; "
        "mutants: each of the 27 structural mutations of DESIGN §4.13 on such instances; non-trivial = every case; "
        "distinct = distinct text")
ASSUMPTIONS = ["oracle.header42_lines reproduces the vim stdheader plugin layout (80 columns, 5-column margins, ASCII art)"]
WORKER_TIMEOUT = {"quick": 600, "thorough": 3600}


def plan(tier, seed):
    q = tier == "quick"
    return [{"mode": "hdr", "seed": seed, "shard": i, "n": 60 if q else 700} for i in range(16)]


# "whatever the names, e-mail and dates are": any one-column character that cannot end the comment or splice the line
ANY_CHARS = [c for c in string.printable if c not in "/*\\?\t\n\r\x0b\x0c "] + ["\u00e9", "\u00fc", "\u6f22", "\x0c", "\x0b", "\x85", "\u2028",
                                                                                   "\u2029", "\x1c", "\x1e", "\u00a0"]


def rand_header(r, fname_shown=None):
    wild = r.random() < 0.3
    alpha = ANY_CHARS if wild else string.ascii_lowercase + string.digits + "_.-"
    login = "".join(r.choice(alpha) for _ in range(r.randint(1, 12)))
    dom = "".join(r.choice(alpha if wild else string.ascii_lowercase) for _ in range(r.randint(2, 10))) + r.choice([".fr", ".com", ".42.fr", ".org"])
    mail = login + "@" + (r.choice(["student.42.fr", dom]))
    if fname_shown is None:
        n = r.randint(1, 60)
        fname_shown = "".join(r.choice(ANY_CHARS if wild else string.ascii_letters + string.digits + "_.-")
                              for _ in range(n - 2)) + r.choice([".c", ".h"])

    def stamp():
        return "%04d/%02d/%02d %02d:%02d:%02d" % (r.randint(1970, 2099), r.randint(1, 12), r.randint(1, 31), r.randint(0, 23),
                                                   r.randint(0, 59), r.randint(0, 59))
    return header42_lines(fname_shown, login=login, mail=mail, created=stamp(), updated=stamp()), login


def mutants(h, login):
    """(name, list of replacement header lines, extra lines before)"""
    star73 = "/* " + "*" * 73 + " */"
    star75 = "/* " + "*" * 75 + " */"
    out = []
    out.append(("absent", []))
    out.append(("declaration_first", ["int\tg_before;", ""] + h))
    out.append(("empty_line_first", [""] + h))
    out.append(("line_comments", ["//" + x[2:-2] for x in h]))
    out.append(("one_block", ["/* " + h[0][3:-3]] + [x[2:-2] for x in h[1:-1]] + [h[-1][3:-3] + " */"]))
    for k in range(11):
        out.append(("line_%d_removed" % (k + 1), h[:k] + h[k + 1:]))
    out.append(("top_frame_73", [star73] + h[1:]))
    out.append(("top_frame_75", [star75] + h[1:]))
    out.append(("bottom_frame_73", h[:-1] + [star73]))
    out.append(("bottom_frame_75", h[:-1] + [star75]))
    out.append(("by_blank", h[:5] + [textline("", ART[3])] + h[6:]))
    out.append(("created_blank", h[:7] + [textline("", ART[5])] + h[8:]))
    out.append(("updated_blank", h[:8] + [textline("", ART[6])] + h[9:]))
    out.append(("by_lowercase", h[:5] + [h[5].replace("By:", "by:")] + h[6:]))
    out.append(("created_updated_swapped", h[:7] + [h[8], h[7]] + h[9:]))
    return out


PREDECESSORS = ["header_only", "comment_only", "empty", "line_comment_only", None, None]


def run_predecessor(kind, r):
    """another file analysed just before, in the same process: the header state must not survive it"""
    if kind is None:
        return
    if kind == "header_only":
        h, _ = rand_header(r)
        src = "\n".join(h) + "\n"
    elif kind == "comment_only":
        src = "/* just a comment */\n/* and another */\n"
    elif kind == "line_comment_only":
        src = "// nothing else\n"
    else:
        src = ""
    core.api_run(r.choice(["pred.c", "pred.h"]), src, clock=False)


def count_invalid(name, src):
    r = core.api_run(name, src, clock=False)
    if r.outcome != "ok":
        return None, r
    return sum(1 for d in r.diags if d[0] == "INVALID_HEADER"), r


def run_shard(spec):
    sh = Shard(max_per_sig=3)
    r = random.Random("c13/%s/%d" % (spec["seed"], spec["shard"]))
    for k in range(spec["n"]):
        kind = "h" if k % 3 == 2 else "c"
        p = conf.make("c13/%s/%d/%d" % (spec["seed"], spec["shard"], k), kind, header=False)
        body = p.text()
        name = p.name
        if core.api_run(name, body, clock=False).outcome != "ok":
            # a body the tool cannot analyse to a verdict (known finding F-60) says nothing about the header
            sh.count("c13.body_not_analysed_skipped")
            continue
        h, login = rand_header(r)
        # the body follows after an empty line, or begins with a comment right under the header
        glue = ["\n", "\n", "\n", "/* about this file */\n\n", "/*\n** about\n** this file\n*/\n\n", "// about this file\n\n",
                "/* a */\n/* b */\n// c\n\n", "".join("/* licence line %d */\n" % i for i in range(70)) + "\n",
                "/*\n" + "".join("** licence line %d\n" % i for i in range(120)) + "*/\n\n"][k % 9]
        sh.tally("body_starts", repr(glue.split("\n")[0][:2]))
        src = "\n".join(h) + "\n" + glue + body
        pk = PREDECESSORS[k % len(PREDECESSORS)]
        run_predecessor(pk, r)
        sh.tally("predecessors", str(pk))
        n, run = count_invalid(name, src)
        sh.case(src)
        sh.count("c13.template_instance_accepted")
        sh.tally("cases", "template")
        if n != 0:
            sh.violation("valid_header_rejected", (str(n),), {"mode": "hdr", "name": name, "src": src, "expect": 0},
                         {"count": n, "outcome": run.outcome, "header": h[3:9], "body_starts_with": glue.split("\n")[0][:2]})
        sh.sample({"header_lines_4_6_8": [h[3], h[5], h[7]]}, cap=1)
        if k % 4 == 0 or spec["n"] > 100:
            for mname, hl in mutants(h, login):
                src2 = ("\n".join(hl) + "\n\n" if hl else "") + body
                pk = r.choice(PREDECESSORS)
                run_predecessor(pk, r)
                sh.tally("predecessors", str(pk))
                if k % 12 == 0 and mname in ("absent", "line_3_removed", "line_comments", "by_blank"):
                    # ... also when the rest of the file is full of characters no token starts with
                    src2 = src2 + "\n".join("$" * 90 for _ in range(60)) + "\n"
                    sh.tally("cases", "mutant_with_5400_lexical_diagnostics")
                n, run = count_invalid(name, src2)
                sh.case(src2)
                sh.count("c13.mutant_rejected_exactly_once")
                sh.tally("cases", "mutant:" + mname)
                if n != 1:
                    sh.violation("mutant_count", (mname, str(n)), {"mode": "hdr", "name": name, "src": src2, "expect": 1, "pred": pk},
                                 {"mutant": mname, "count": n, "outcome": run.outcome, "predecessor": pk})
    return sh.result()


def replay(case, sh):
    run_predecessor(case.get("pred"), random.Random(0))
    n, run = count_invalid(case["name"], case["src"])
    sh.evaluations += 1
    if n != case["expect"]:
        sh.violation("count", (str(n),), case, {"count": n, "expected": case["expect"]})


def finish(merged, tier, seed):
    a = merged["asserts"]
    inc = []
    if a.get("c13.template_instance_accepted", 0) < 300:
        inc.append("only %d template instances" % a.get("c13.template_instance_accepted", 0))
    if a.get("c13.mutant_rejected_exactly_once", 0) < 500:
        inc.append("only %d mutants" % a.get("c13.mutant_rejected_exactly_once", 0))
    return {"inconclusive": inc, "coverage": {"cases": merged["cov"].get("cases"), "predecessor_files": merged["cov"].get("predecessors")},
            "summary": ["template instances %d, mutants %d (27 kinds)" % (a.get("c13.template_instance_accepted", 0),
                                                                        a.get("c13.mutant_rejected_exactly_once", 0))]}
