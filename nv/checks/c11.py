"""C11 - C literals are classified as C defines them (DESIGN §4.11).

Reference: the C11 6.4.4 grammar (nv/gen/literals.py, written from the standard)
generates valid spellings exhaustively up to a digit-string bound and the
malformed families with their required diagnostic.  Deciding monitors: M-LEX
(exactly one CONSTANT / CHAR_CONST / STRING token spanning the spelling) and
M-DIAG (no lexical diagnostic for a valid spelling; the family's code for a
malformed one), each literal lexed alone and in several left/right contexts.
"""
import random

from nv import core
from nv.gen import literals
from nv.run import Shard

ID = "C11"
LEVEL = "exploration"
RULE = ("valid spellings from the reference grammar: integers (digit strings up to the tier's bound exhaustively x all 49 "
        "suffix spellings), floats (decimal and hexadecimal, all exponent forms, suffixes), characters (every printable "
        "c-char and every escape of 6.4.4.4 x 5 prefixes), strings; malformed families of DESIGN §4.11; each literal in "
        "contexts {alone, =L;, (L), L], -L, L,}. Non-trivial = every case; distinct = distinct source text")
ASSUMPTIONS = ["nv/gen/literals.py is the reference grammar (C11 6.4.4 + the extensions the property names)",
               "a glued + or - after the literal is excluded (C itself munches it after e/E/p/P)"]
WORKER_TIMEOUT = {"quick": 600, "thorough": 3600}

TOKEN_OF = {"int": "CONSTANT", "float": "CONSTANT", "hexfloat": "CONSTANT", "char": "CHAR_CONST", "str": "STRING"}
CONTEXTS = [("", ""), ("= ", ";"), ("(", ")"), ("[", "]"), ("-", "\n"), (", ", ","), (" ", " ")]
# another constant glued to the right (no blank): each is a token of its own (`1'0'` is an integer and a character)
GLUED = [("", "'0'"), ("", "'0\\\n'"), ("", "'a'"), ("", "'\\n'"), ("", "'0??/\n'"), ("", "\"s\""), ("'1'", ""), ("", "'\\x41'")]


# left contexts that reach further back: words and characters earlier on the line or in the file that have nothing to
# do with the literal (directive names inside a string or a comment, characters str.splitlines() takes for line ends,
# other literals, a directive the literal is the value of)
FAR_CONTEXTS = [('puts("#error: bad input"); c = ', ";"), ("/* # warning */ x = ", ";"), ('s = "%:error ??=warning"; c = ', ";"),
                ("/* page\x0cbreak */\nx = ", ";\n"), ("// nel \x85 ls \u2028\nx = ", ";\n"), ('"a\x0bb\x1cc" + ', ";"),
                ("/* \r */ x = ", ";"), ("#define A ", "\n"), ("# define B(x) x + ", "\n"), ("'a' + ", ";"), ('L"x" ', " "),
                ("0x1p3 + ", ";"), ("#if ", "\n"), ("\tx = y ? ", " : 0;\n"), ("a\\\n = ", ";"), ("??=define C ", "\n")]


def plan(tier, seed):
    q = tier == "quick"
    n = 16
    return [{"mode": "lit", "seed": seed, "shard": i, "nshards": n, "maxlen": 2 if q else 3, "tier": tier} for i in range(n)]


def spellings(spec):
    r = random.Random("c11/%s" % spec["seed"])
    ml = spec["maxlen"]
    yield from literals.valid_integers(maxlen=ml)
    yield from literals.valid_integers(maxlen=9, rng=r, sample=20 if spec["tier"] == "quick" else 200)
    yield from literals.valid_floats(maxlen=1)
    yield from literals.valid_floats(maxlen=4, rng=r, sample=3 if spec["tier"] == "quick" else 12)
    yield from literals.valid_chars()
    yield from literals.valid_strings(r, 300 if spec["tier"] == "quick" else 5000)
    yield from literals.long_constants()


def lex(src):
    r = core.api_run("t.c", src, lex_only=True, clock=False, want_tokens=True)
    return r


def judge_valid(sh, sp, fam, ctx):
    pre, post = ctx
    src = pre + sp + post
    r = lex(src)
    sh.count("c11.valid_is_one_token_without_diagnostic")
    sh.tally("families", fam)
    case = {"mode": "lit", "src": src, "spelling": sp, "family": fam, "valid": True, "ctx": list(ctx)}
    detail = {"family": fam, "spelling": sp, "ctx": list(ctx), "kind_of": fam.split(":")[0]}
    if r.outcome != "ok":
        detail["outcome"] = str(r.detail)
        sh.violation("valid_literal_crashes", (fam,), case, detail)
        return
    want = TOKEN_OF[fam.split(":")[0]]
    start, end = len(pre), len(pre) + len(sp)
    spanning = [t for t in r.sess.tokens if t[3] == start and t[4] == end and t[0] == want]
    if not spanning:
        inside = [(t[0], t[1]) for t in r.sess.tokens if t[3] < end and t[4] > start]
        detail["tokens"] = inside[:6]
        sh.violation("valid_literal_split", (fam, str(len(inside))), case, detail)
    diags = [d for d in r.sess.diags]
    if diags:
        detail["diagnostics"] = sorted(set(d["code"] for d in diags))
        sh.violation("valid_literal_diagnosed", (fam,) + tuple(detail["diagnostics"][:2]), case, detail)


def judge_malformed(sh, sp, fam, code, ctx):
    pre, post = ctx
    if "\n" in sp or fam.endswith(("_eof", "comment_eof")):
        post = ""         # the malformation is the end of line / of file itself
        if pre == "-":
            pre = ""
    src = pre + sp + post
    r = lex(src)
    sh.count("c11.malformed_gets_its_diagnostic")
    sh.tally("families", fam)
    case = {"mode": "lit", "src": src, "spelling": sp, "family": fam, "valid": False, "code": code, "ctx": list(ctx)}
    detail = {"family": fam, "spelling": sp, "required": code}
    import re
    m = re.match(r"^0[xX][0-9a-fA-F.]+[pP][+-]?[0-9]+([a-zA-Z]+)$", sp)
    detail["hexfloat_suffix_of_hex_letters"] = bool(m and set(m.group(1).lower()) <= set("abcdef"))
    if r.outcome != "ok":
        detail["outcome"] = str(r.detail)
        sh.violation("malformed_literal_crashes", (fam,), case, detail)
        return
    got = sorted(set(d["code"] for d in r.sess.diags))
    if code not in got:
        detail["diagnostics"] = got
        sh.violation("malformed_literal_not_diagnosed", (fam, code), case, detail)


def run_shard(spec):
    import zlib
    sh = Shard(max_per_sig=3)
    n = spec["nshards"]
    seen = set()
    work = []      # (spelling, family, required code or None)
    k = 0
    for sp, fam in spellings(spec):
        if sp in seen:
            continue
        seen.add(sp)
        # spellings that differ only in letter case are lexed in the same process, so that a result
        # remembered under too coarse a key (case-folded, prefix-stripped ...) is observable
        if zlib.crc32(sp.lower().encode()) % n != spec["shard"]:
            continue
        work.append((sp, fam, None))
    # the malformed list is small: every worker lexes all of it after (forward pass) and before (backward pass) its
    # share of the valid constants, so that anything remembered from a valid constant meets every malformed one
    for sp, fam, code in list(literals.malformed()) + list(literals.long_malformed()):
        work.append((sp, fam, code))
    # two passes in opposite orders: the classification of a literal must not depend on what was lexed before it
    for order, items in (("forward", work), ("backward", list(reversed(work)))):
        for sp, fam, code in items:
            k += 1
            if code is None:
                full = (k % 5 == 0)
                ctxs = CONTEXTS if full else [CONTEXTS[0], CONTEXTS[1 + k % (len(CONTEXTS) - 1)]]
                if order == "backward":
                    ctxs = ctxs[:1]
                if order == "forward" and k % 4 == 0:
                    ctxs = list(ctxs) + [FAR_CONTEXTS[(k // 4) % len(FAR_CONTEXTS)]]
                if order == "forward" and k % 3 == 0 and fam.split(":")[0] in ("int", "float", "hexfloat"):
                    ctxs = list(ctxs) + [GLUED[(k // 3) % len(GLUED)]]
                for ctx in ctxs:
                    sh.case(ctx[0] + sp + ctx[1])
                    judge_valid(sh, sp, fam, ctx)
            else:
                far = FAR_CONTEXTS if order == "forward" else [FAR_CONTEXTS[k % len(FAR_CONTEXTS)]]
                for ctx in (CONTEXTS if order == "forward" else CONTEXTS[:2]) + far:
                    sh.case("bad" + ctx[0] + sp + ctx[1])
                    judge_malformed(sh, sp, fam, code, ctx)
            if k % 5000 == 1:
                sh.sample({"literal": sp, "family": fam, "required": code}, cap=2)
        sh.count("c11.passes_in_opposite_orders")
    return sh.result()


def replay(case, sh):
    sh.evaluations += 1
    if case["valid"]:
        judge_valid(sh, case["spelling"], case["family"], tuple(case["ctx"]))
    else:
        judge_malformed(sh, case["spelling"], case["family"], case["code"], tuple(case["ctx"]))


def finish(merged, tier, seed):
    a = merged["asserts"]
    inc = []
    if a.get("c11.valid_is_one_token_without_diagnostic", 0) < 50000:
        inc.append("only %d valid literals" % a.get("c11.valid_is_one_token_without_diagnostic", 0))
    if a.get("c11.malformed_gets_its_diagnostic", 0) < 300:
        inc.append("only %d malformed literals" % a.get("c11.malformed_gets_its_diagnostic", 0))
    ml = 2 if tier == "quick" else 3
    return {"inconclusive": inc,
            "coverage": {"families": merged["cov"].get("families"),
                         "exhaustive_subspaces": ["integer constants: every base x every digit string of length <= %d x 49 suffixes" % ml,
                                                  "decimal and hexadecimal floats with digit strings of length 1 x all exponent forms x 7 suffixes",
                                                  "character constants: 5 prefixes x (every printable c-char + every escape form)"]},
            "summary": ["valid %d, malformed %d" % (a.get("c11.valid_is_one_token_without_diagnostic", 0),
                                                   a.get("c11.malformed_gets_its_diagnostic", 0))]}
