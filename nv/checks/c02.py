"""C02 - every enforced Norm violation is reported on its line (DESIGN §4.2).

Specification side: each operator of the catalogue (nv/gen/viol.py) edits one
site of a conforming program and names the diagnostic code that designates
the broken rule and the line it must be reported on.  Deciding monitor:
M-DIAG (an Error-level event with that code whose first highlight is on the
expected line), status == Error; CLI: `Error!` verdict and non-zero exit.
"""
import os
import random
import shutil
import tempfile

from nv import core, pipework, cliobs
from nv.gen import viol
from nv.run import Shard

ID = "C02"
LEVEL = "exploration"
RULE = ("for each generated conforming program that the tool accepts, each operator of the violation catalogue is applied "
        "at up to k applicable sites (k = 2 quick, all sites on a subset in thorough); non-trivial = the edit changed the "
        "text of an accepted program; distinct = distinct (name, edited text)")
ASSUMPTIONS = ["each catalogue operator introduces a violation of the Norm sentence it is tied to (DESIGN §4.2)",
               "additional diagnostics are ignored; only the designated code on the edited line is required"]
WORKER_TIMEOUT = {"quick": 900, "thorough": 7200}


def plan(tier, seed):
    q = tier == "quick"
    specs = pipework.plan_programs(tier, seed, "C02", nshards=16 if q else 64, per_shard=12 if q else 60,
                                   per_op=2 if q else 3)
    if not q:
        specs += pipework.plan_programs(tier, seed + 7919, "C02", nshards=32, per_shard=6, per_op=0)
    specs += [{"mode": "cli", "seed": seed, "shard": i, "n": 30 if q else 200} for i in range(4)]
    return specs


def judge(sh, q, o, exp, r, case, base_kind=None):
    sh.count("c02.designated_code_on_edited_line")
    sh.tally("applied", o["id"])
    l = q.lines[q.index_of_lineno(exp)] if q.index_of_lineno(exp) is not None else None
    lk = l.kind if l is not None else None
    site = (l.meta.get("site") if l is not None else None) or {}
    detail = {"op": o["id"], "name": o["name"], "codes": list(o["codes"]), "line_kind": lk,
              "depth": l.depth if l is not None else None, "expected_line": exp, "site": site,
              "only_token": (l.text().strip() if l is not None and len(l.text().split()) == 1 else None),
              "text": q.text().split("\n")[exp - 1] if exp - 1 < len(q.text().split("\n")) else None}
    for k, v in site.items():
        detail["site_" + k] = v
    if r.outcome != "ok":
        detail.update({"outcome": r.outcome, "why": str(r.detail)[:160]})
        sh.violation("not_analysed", (o["id"], r.outcome), case, detail)
        return False
    errs = [d for d in r.diags if d[1] == "Error"]
    if o.get("anyline"):
        hit = any(d[0] in o["codes"] for d in errs)
    else:
        hit = any(d[0] in o["codes"] and d[2] == exp for d in errs)
    if not hit:
        detail["on_line"] = sorted(set(d[0] for d in errs if d[2] == exp))
        detail["elsewhere"] = sorted(set((d[0], d[2]) for d in errs if d[0] in o["codes"]))[:4]
        sh.violation("missed", (o["id"], lk, site.get("next"), site.get("prev"), site.get("op")), case, detail)
        return False
    sh.tally("detected", o["id"])
    sh.count("c02.status_is_error")
    if r.status != "Error":
        sh.violation("status_not_error", (o["id"],), case, detail)
    return True


def run_programs(spec):
    sh = Shard(max_per_sig=3)
    rng = random.Random("c02/" + pipework.prog_seed(spec, -1))
    per_op = spec.get("per_op", 2)
    napp = 0
    q = None
    for p, tag in pipework.base_programs(spec):
        r0 = core.api_run(p.name, p.text(), clock=False)
        if r0.outcome != "ok" or r0.errors():
            sh.count("c02.base_not_clean_skipped")
            continue
        for q, o, exp in pipework.variants(p, rng, per_op=per_op, all_sites=(per_op == 0)):
            src = q.text()
            if src == p.text():
                continue
            case = {"name": q.name, "ir": q.to_json(), "mode": "api", "op": o["name"], "expected_line": exp,
                    "site": q.lines[q.index_of_lineno(exp)].meta.get("site")}
            r = core.api_run(q.name, src, clock=False)
            sh.case(q.name + "\0" + src)
            ok = judge(sh, q, o, exp, r, case)
            napp += 1
            if ok and napp % 4 == 0:
                # the same file once more in the same process: the diagnostic must not be remembered away
                r2 = core.api_run(q.name, src, clock=False)
                sh.count("c02.reported_again_on_second_run")
                if sorted(r2.diags) != sorted(r.diags) or r2.outcome != r.outcome:
                    sh.violation("second_run_differs", (o["id"],), dict(case, twice=True),
                                 {"op": o["id"], "only_first": [d for d in r.diags if d not in r2.diags][:3],
                                  "only_second": [d for d in r2.diags if d not in r.diags][:3]})
            if ok and napp % 9 == 0 and o["id"] != "V68":       # (V68 is about the line right above: comments there end it)
                # the same violation in a long file: more than a thousand comment lines right above the function (or
                # the file-level declaration) that holds it - whatever looks back from there has far to look
                idx = q.index_of_lineno(exp)
                ln = q.lines[idx]
                j = None
                if ln.func >= 0 and ln.kind != "fhead":
                    j = next((i2 for i2 in range(idx, -1, -1) if q.lines[i2].kind == "fhead"), None)
                elif ln.kind in ("fhead", "proto", "global"):
                    j = idx
                if j is not None and q.lines[j].kind != "hdr":
                    from nv.gen.ir import Line
                    npad = 1100
                    q2 = q.copy()
                    q2.lines[j:j] = [Line("comment", [("// filler %d" % i2, "comment:line")]) for i2 in range(npad)]
                    r3 = core.api_run(q2.name, q2.text(), clock=False)
                    sh.case(q2.name + "\0pad\0" + src)
                    sh.tally("padded", "n")
                    judge(sh, q2, o, exp + npad, r3, dict(case, ir=q2.to_json(), expected_line=exp + npad, padded=npad))
            lk = q.lines[q.index_of_lineno(exp)].kind
            sh.cover("op_contexts", "%s/%s/%d" % (o["id"], lk, q.lines[q.index_of_lineno(exp)].depth))
        if "q" in dir() and q is not None:
            sh.sample({"operator": o["id"] + " " + o["name"], "designated_codes": list(o["codes"]), "expected_line": exp,
                       "edited_line": q.text().split("\n")[exp - 1]}, cap=2)
    return sh


def run_cli(spec):
    sh = Shard()
    rng = random.Random("c02cli/%s/%d" % (spec["seed"], spec["shard"]))
    tmp = tempfile.mkdtemp(prefix="nv_c02_")
    try:
        from nv.gen import conf
        names, expect = [], {}
        k = 0
        tries = 0
        while len(names) < spec["n"] and tries < spec["n"] * 6:
            tries += 1
            kind = "h" if tries % 3 == 2 else "c"
            name = "v%d.%s" % (k, kind)
            p = conf.make("%s/c02cli/%d/%d" % (spec["seed"], spec["shard"], tries), kind, name=name)
            for q, o, exp in pipework.sampled_variants(p, rng, 1):
                r = core.api_run(name, q.text(), clock=False)
                if r.outcome != "ok" or r.status != "Error":
                    continue      # misses are judged in-process; a fatal file would abort the batch (C04)
                if not any(d[0] in o["codes"] and d[1] == "Error" and (o.get("anyline") or d[2] == exp) for d in r.diags):
                    continue      # idem: the CLI clause is about what the rules did emit
                with open(os.path.join(tmp, name), "w") as f:
                    f.write(q.text())
                names.append(name)
                expect[name] = (o, exp, q.text())
                k += 1
        # the run also holds files without any violation (clean and notice-only), one of them last:
        # the verdict of a violating file and the exit status must not depend on its neighbours
        others = {}
        tries = 0
        while len(others) < max(3, len(names) // 3) and tries < 60:
            tries += 1
            oname = "o%d.c" % tries
            p = conf.make("%s/c02cli/o/%d/%d" % (spec["seed"], spec["shard"], tries), "c", name=oname)
            r0 = core.api_run(oname, p.text(), clock=False)
            if r0.outcome == "ok" and r0.status == "OK":
                others[oname] = (p.text(), any(d[1] == "Notice" for d in r0.diags))
                with open(os.path.join(tmp, oname), "w") as f:
                    f.write(p.text())
        order = names + list(others)
        rng.shuffle(order)
        notice_only = [n for n in others if others[n][1]]
        last = (notice_only or list(others) or [None])[0]
        if last is not None:
            order.remove(last)
            order.append(last)
        r = cliobs.run_cli(["--no-colors"] + order, cwd=tmp, timeout=300)
        sh.case("cli\0" + "\0".join(expect[n][2] for n in names))
        files_map = {n: expect[n][2] for n in names}
        files_map.update({n: others[n][0] for n in others})
        case = {"mode": "cli", "files": files_map, "order": order}
        sh.tally("cli_runs", "variants_mixed_with_%d_clean_or_notice_files_last_is_%s" % (
            len(others), "notice_only" if last in notice_only else "clean"))
        sh.count("c02.cli_exit_status_nonzero")
        if r.timeout:
            sh.inconclusive.append("CLI batch exceeded the wall-clock watchdog")
            return sh
        if r.rc in (0, None) or r.traceback():
            sh.violation("cli_exit_status", (str(r.rc),), case, {"rc": r.rc, "stderr": r.stderr[-300:]})
        try:
            files = r.parsed()
        except Exception as e:
            sh.violation("cli_unparsable_report", (type(e).__name__,), case, {"error": str(e)})
            return sh
        by = {f["name"]: f for f in files}
        for n in names:
            o, exp, _ = expect[n]
            sh.count("c02.cli_error_verdict_and_code_printed")
            f = by.get(n)
            if f is None or f["status"] != "Error":
                sh.violation("cli_verdict", (o["id"],), case, {"file": n, "got": f and f["status"]})
                continue
            if not any(d[0] in o["codes"] and (o.get("anyline") or d[2] == exp) for d in f["diags"]):
                sh.violation("cli_code_not_printed", (o["id"],), case, {"file": n, "expected": [o["codes"], exp],
                                                                         "printed": f["diags"][:6]})
        sh.sample({"cli_files": len(names), "first": names[:3]}, cap=1)
    finally:
        shutil.rmtree(tmp, ignore_errors=True)
    return sh


def run_shard(spec):
    if spec["mode"] == "cli":
        return run_cli(spec).result()
    return run_programs(spec).result()


def replay(case, sh):
    from nv.gen.ir import Prog
    if case.get("mode") == "cli":
        tmp = tempfile.mkdtemp(prefix="nv_c02r_")
        try:
            for n, t in case["files"].items():
                with open(os.path.join(tmp, n), "w") as f:
                    f.write(t)
            r = cliobs.run_cli(["--no-colors"] + list(case.get("order") or case["files"]), cwd=tmp)
            sh.evaluations += 1
            if r.rc in (0, None):
                sh.violation("cli_exit_status", (str(r.rc),), case, {"rc": r.rc})
        finally:
            shutil.rmtree(tmp, ignore_errors=True)
        return
    q = Prog.from_json(case["ir"])
    o = viol.BY_NAME()[case["op"]]
    # line metadata (site) is not serialised: recompute nothing, replay judges presence only
    r = core.api_run(q.name, q.text(), clock=False)
    sh.evaluations += 1
    if case.get("twice"):
        r2 = core.api_run(q.name, q.text(), clock=False)
        if sorted(r2.diags) != sorted(r.diags):
            sh.violation("second_run_differs", (o["id"],), case, {"op": o["id"]})
    if case.get("site"):
        i = q.index_of_lineno(case["expected_line"])
        q.lines[i].meta["site"] = case["site"]
    judge(sh, q, o, case["expected_line"], r, case)


def finish(merged, tier, seed):
    cov = merged["cov"]
    a = merged["asserts"]
    applied = cov.get("applied", {})
    detected = cov.get("detected", {})
    inc = []
    never = [o["id"] for o in viol.OPS if applied.get(o["id"], 0) == 0]
    if len(never) > 3:
        inc.append("operators never applied: %s" % never)
    if a.get("c02.designated_code_on_edited_line", 0) < 5000:
        inc.append("only %d operator applications" % a.get("c02.designated_code_on_edited_line", 0))
    table = {o["id"] + " " + o["name"]: [applied.get(o["id"], 0), detected.get(o["id"], 0)] for o in viol.OPS}
    return {"inconclusive": inc,
            "coverage": {"operators": len(viol.OPS), "per_operator_applied_detected": table,
                         "distinct_operator_contexts": len(cov.get("op_contexts", [])), "never_applied": never},
            "summary": ["%d operators, %d applications, %d detected on the edited line, %d (operator, line kind, depth) contexts"
                        % (len(viol.OPS), sum(applied.values()), sum(detected.values()), len(cov.get("op_contexts", [])))]}
