"""C03 - numeric limits are enforced exactly at their boundary (DESIGN §4.3).

Every case is *constructed to measure exactly n* for one limit L (width 80,
body lines 25, functions 5, parameters 4, variables 5), n in [L-3, L+6].
Deciding monitor: M-DIAG - the limit's code must be emitted on the measured
line / function iff n > L (duplicates allowed, other codes ignored).
"""
import random

from nv import core
from nv.gen import conf
from nv.gen.ir import Line, IND
from nv.oracle import vis_width, header42
from nv.run import Shard

ID = "C03"
LEVEL = "exploration"
RULE = ("one case per (limit, measure n in [L-3, L+6], context): width cases for 14 kinds of line x leading tabs x "
        "position in file x final newline; body-line cases from generated bodies of exactly n lines with nested control "
        "structures and neighbour functions; function/parameter/variable count cases with pointer, array and "
        "function-pointer declarators. Non-trivial = every case (the measured quantity is within 6 of the limit); "
        "distinct = distinct text")
ASSUMPTIONS = ["vis_width (tab stops every 4 columns) is the reference width",
               "the constructed file measures exactly n (asserted at construction)"]
WORKER_TIMEOUT = {"quick": 600, "thorough": 3600}

HDR = header42("test.c") + "\n"


def plan(tier, seed):
    q = tier == "quick"
    n = 16
    return [{"mode": "limits", "seed": seed, "shard": i, "nshards": n, "reps": 4 if q else 40} for i in range(n)]


# ------------------------------------------------------------------ width

def pad_to(prefix, fill, suffix, n, start_tabs=0):
    """prefix + fill*k + suffix whose visual width is exactly n (None if impossible);
    `suffix` may be a list of alternatives (needed when it contains a tab)"""
    sufs = suffix if isinstance(suffix, list) else [suffix]
    for suf in sufs:
        for k in range(1, 100):
            s = prefix + fill * k + suf
            w = vis_width(s)
            if w == n:
                return s
            if w > n + 8:
                break
    return None


def nest(t):
    """opening and closing lines that put a statement at t leading tabs (t >= 1)"""
    op, cl = [], []
    for d in range(1, t):
        op += ["\t" * d + "while (a)", "\t" * d + "{"]
        cl = ["\t" * d + "}"] + cl
    return op, cl


WIDTH_KINDS = ["stmt", "decl", "fhead", "proto", "global", "define", "include", "ctrl", "comment_line",
               "comment_eol_global", "comment_block", "block_first", "block_interior", "block_last",
               "block_interior_tab", "stmt_string_tail", "stmt_string_tab", "comment_line_tab", "define_string_tab",
               "global_string", "stmt_digraph", "stmt_trigraph", "global_digraph", "ctrl_trigraph",
               "define_spliced_second", "define_spliced_first", "stmt_spliced_second"]


def width_case(kind, n, t, pos, final_nl, r):
    """-> (name, src, measured line number) or None"""
    body_pre = ["int\tft_f(int a)", "{"]
    decl = ["\tint\tb;", ""]
    stmts = ["\tb = a;"]
    tail = ["\treturn (b);", "}"]
    top = []      # file-level lines before the function
    line = None
    where = "top"
    also = []
    off = 0
    tabs = "\t" * t
    if kind == "stmt":
        if t < 1:
            return None
        line = pad_to(tabs + 'ft_g("', r.choice("xabc"), '");', n)
        where = "body"
    elif kind == "stmt_string_tail":
        # the last token *starts* before column 81 and ends after it
        if t < 1:
            return None
        line = pad_to(tabs + 'b = ft_g(a, "', "y", '");', n)
        where = "body"
    elif kind == "stmt_string_tab":
        # a raw tab inside a string literal advances to the next tab stop
        if t < 1:
            return None
        line = pad_to(tabs + 'ft_g("', r.choice("xyzw"), ['\tq");', '\tqq");', '\tqqq");', '\tqqqq");'], n)
        where = "body"
    elif kind == "comment_line_tab":
        if t:
            return None
        line = pad_to("// a\t", r.choice("klmn"), ["\tend", "\ten", "\te", "\tendd"], n)
    elif kind == "define_string_tab":
        if t:
            return None
        line = pad_to('#define MSG "a\t', r.choice("mno"), ['\tz"', '\tzz"', '\tzzz"', '\tzzzz"'], n)
    elif kind == "global_string":
        if t:
            return None
        line = pad_to('static char\t*g_s = "', r.choice("stuv"), '";', n)
    elif kind == "stmt_digraph":
        # alternative spellings take the columns their characters take
        if t < 1:
            return None
        line = pad_to(tabs + 'ft_g(v<:0:>, <%0%>, "', r.choice("xabc"), '");', n)
        where = "body"
    elif kind == "stmt_trigraph":
        if t < 1:
            return None
        line = pad_to(tabs + 'ft_g(v??(0??) ??! 1, "', r.choice("xabc"), '");', n)
        where = "body"
    elif kind == "ctrl_trigraph":
        if t < 1:
            return None
        line = pad_to(tabs + "if (v??(0??) ??' ft_", "c", "(a))", n)
        where = "ctrl"
    elif kind == "global_digraph":
        if t:
            return None
        line = pad_to('static char\tg_s<::> = "', r.choice("stuv"), '";', n)
    elif kind in ("define_spliced_second", "define_spliced_first"):
        # one instruction over two physical lines joined by a line splice: each line is measured on its own, also
        # when the other one is too long as well
        if t:
            return None
        longl = '#define MSG "' + "q" * 72 + '" \\' if kind.endswith("second") else '\t"' + "q" * 82 + '"'
        meas = pad_to('\t"', "m", '"', n) if kind.endswith("second") else pad_to('#define MSG "', "m", '" \\', n)
        if meas is None:
            return None
        if kind.endswith("first") and pos == "last" and not final_nl:
            return None     # the neighbour line would be the file's last line without a newline (known finding F-13)
        line = (longl + "\n" + meas) if kind.endswith("second") else (meas + "\n" + longl)
        also = [0] if kind.endswith("second") else [1]
        off = 1 if kind.endswith("second") else 0
    elif kind == "stmt_spliced_second":
        if t < 1:
            return None
        meas = pad_to(tabs + '\t"', "m", '");', n)
        if meas is None:
            return None
        line = tabs + 'ft_g("' + "q" * 80 + '", \\\n' + meas
        also = [0]
        off = 1
        where = "body"
    elif kind == "decl":
        if t != 1:
            return None
        line = pad_to("\tint\tc", "z", ";", n)
        where = "decl"
    elif kind == "fhead":
        if t:
            return None
        line = pad_to("int\tft_", "h", "(void)", n)
        where = "fhead"
    elif kind == "proto":
        if t:
            return None
        line = pad_to("int\tft_", "p", "(void);", n)
    elif kind == "global":
        if t:
            return None
        line = pad_to("static int\tg_", "v", " = 0;", n)
    elif kind == "define":
        if t:
            return None
        line = pad_to('#define MSG "', "m", '"', n)
    elif kind == "include":
        if t:
            return None
        line = pad_to('#include "', "i", '.h"', n)
    elif kind == "ctrl":
        if t < 1:
            return None
        line = pad_to(tabs + "if (ft_", "c", "(a))", n)
        where = "ctrl"
    elif kind == "comment_line":
        if t:
            return None
        line = pad_to("// ", r.choice("k+;{"), "", n)
    elif kind == "comment_eol_global":
        if t:
            return None
        line = pad_to("static int\tg_v = 0; // ", "e", "", n)
    elif kind == "comment_block":
        if t:
            return None
        line = pad_to("/* ", r.choice("b=(,"), " */", n)
    elif kind in ("block_first", "block_interior", "block_last", "block_interior_tab"):
        if t:
            return None
        short = "** short"
        if kind == "block_first":
            lines3 = [pad_to("/* ", "f", "", n), short, "*/"]
            off = 0
        elif kind == "block_interior":
            lines3 = ["/*", pad_to("** ", "n", "", n), "*/"]
            off = 1
        elif kind == "block_interior_tab":
            lines3 = ["/*", pad_to("**\t", "t", ["\tend", "\ten", "\te", "\tendd"], n), "*/"]
            off = 1
        else:
            lines3 = ["/*", short, pad_to("** ", "l", " */", n)]
            off = 2
        if any(x is None for x in lines3):
            return None
        line = "\n".join(lines3)
    if line is None:
        return None

    # assemble
    name = "test.c"
    if where == "top":
        if pos == "first":
            lines = [line, ""] + body_pre + decl + stmts + tail
            m = 1
            hdr = ""
        elif pos == "last":
            lines = body_pre + decl + stmts + tail + ["", line]
            m = len(HDR.split("\n")) - 1 + len(lines)
            hdr = HDR
            if kind in ("proto", "global", "define", "include") and False:
                return None
        else:
            lines = [line, ""] + body_pre + decl + stmts + tail
            hdr = HDR
            m = len(HDR.split("\n")) - 1 + 1
        if kind.startswith("block") or "spliced" in kind:
            m += off
    else:
        if pos != "middle":
            return None
        hdr = HDR
        base = len(HDR.split("\n")) - 1
        if where == "fhead":
            lines = [line, "{"] + ["\treturn (0);", "}"]
            m = base + 1
        elif where == "decl":
            lines = body_pre + ["\tint\tb;", line, ""] + stmts + tail
            m = base + 4
        elif where == "body":
            op, cl = nest(t)
            lines = body_pre + decl + op + [line] + cl + tail
            m = base + len(body_pre) + len(decl) + len(op) + 1
        else:   # ctrl
            op, cl = nest(t)
            lines = body_pre + decl + op + [line, tabs + "\tb = a;"] + cl + tail
            m = base + len(body_pre) + len(decl) + len(op) + 1
    if where != "top" and "spliced" in kind:
        m += off
    src = hdr + "\n".join(lines) + ("\n" if final_nl else "")
    got = src.split("\n")[m - 1]
    assert vis_width(got) == n, (kind, n, t, pos, got, vis_width(got))
    also_abs = [m - off + a for a in also]
    for a in also_abs:
        assert vis_width(src.split("\n")[a - 1]) > 80
    return name, src, m, also_abs


def width_cases(r, reps):
    for kind in WIDTH_KINDS:
        for n in range(77, 87):
            for t in (0, 1, 2, 3):
                for pos in ("first", "middle", "last"):
                    for final_nl in ((True, False) if pos == "last" else (True,)):
                        c = width_case(kind, n, t, pos, final_nl, r)
                        if c is not None:
                            ctx = {"tabs": t, "pos": pos, "final_nl": final_nl}
                            if c[3]:
                                ctx["also_long"] = c[3]
                            if kind == "define_spliced_first":
                                ctx["ends_in_splice"] = True
                            yield ("width", kind, n, ctx) + c[:3]


# ------------------------------------------------------------------ counts

def body_of(n, g, env, r):
    """exactly n physical body lines (Lines), mixing flat statements and nested control structures"""
    lines = []

    def used():
        return sum(l.text().count("\n") + 1 for l in lines)
    guard = 0
    while used() < n and guard < 500:
        guard += 1
        rem = n - used()
        if rem >= 4 and r.random() < 0.5:
            blk = g.block(env, 1, min(rem, r.choice([4, 5, 6, 8, 10])), False, 3, 0)
            if sum(l.text().count("\n") + 1 for l in blk) <= rem:
                lines += blk
        else:
            lines.append(g.stmt_line(g.simple_stmt(env, False, 1), 1, 0))
    # a `return` in the middle is fine for the tool; keep bodies as generated
    assert used() == n
    return lines


def lines_case(n, r, seedstr):
    g = conf.Gen(seedstr)
    nb, na = r.randint(0, 2), r.randint(0, 2)
    out = []
    others = []
    for k in range(nb):
        fl, _, _ = g.function(k, body_lines=r.randint(1, 25))
        others.append(fl)
    # measured function: nvars declarations + blank count as body lines
    nv = r.choice([0, 0, 1, 3, 5])
    fl, head, env = g.function(nb, nvars=nv, body_lines=1)
    # keep head, "{", decls(+blank); replace the statements
    keep = [l for l in fl if l.kind in ("fhead", "fopen", "decl", "blank_in")]
    ndecl = sum(1 for l in keep if l.kind in ("decl", "blank_in"))
    if n - ndecl < 1:
        return None
    body = body_of(n - ndecl, g, env, r)
    measured = keep + body + [Line("fclose", [("}", "punct")], 0, nb)]
    after = []
    for k in range(na):
        fl2, _, _ = g.function(nb + 1 + k, body_lines=r.randint(1, 25))
        after.append(fl2)
    L = g.header_lines("test.c") + [Line("blank", [])]
    close_line = None
    for i, f in enumerate(others + [measured] + after):
        if i:
            L.append(Line("blank", []))
        L += f
        if f is measured:
            close_line = sum(l.text().count("\n") + 1 for l in L)
    from nv.gen.ir import Prog
    p = Prog("test.c", L)
    src = p.text()
    # measured: lines strictly between the braces
    open_line = close_line - n - 1
    assert src.split("\n")[open_line - 1] == "{" and src.split("\n")[close_line - 1] == "}", (open_line, close_line)
    return "test.c", src, close_line, {"neighbours": [nb, na], "decl_lines": ndecl}


BETWEEN = [["#ifdef X", "#endif"], ["#define Y 1"], ["#pragma once"], ["// c"], ["/* c */"], [""], ["/*", "** c", "*/"],
           ["#ifndef X", "# define X", "#endif"], ["// a", "// b"]]


def funcs_case(n, r, between=False):
    lines = []
    heads = []
    for k in range(n):
        if k:
            lines.append("")
        static = "static " if r.random() < 0.4 else ""
        heads.append(len(lines) + 1)
        lines += ["%sint\tft_f%d(int a)" % (static, k)]
        if between and r.random() < 0.5:
            # something between the declarator and the body: still one function definition
            lines += r.choice(BETWEEN)
        lines += ["{"]
        for _ in range(r.randint(1, 3)):
            lines.append("\ta = a + %d;" % r.randint(1, 9))
        lines += ["\treturn (a);", "}"]
    src = HDR + "\n".join(lines) + "\n"
    base = len(HDR.split("\n")) - 1
    return "test.c", src, [base + h for h in heads]


PARAM_FORMS = ["int %s", "char *%s", "char **%s", "int %s[3]", "int (*%s)(int, int)", "const char *%s", "t_x *%s",
               "unsigned long %s", "void (*%s)(void)", "struct s_x *%s"]


HEAD_SHAPES = ["int\tf(%s)", "int\tf(%s)", "char\t*f(%s)", "static int\tf(%s)", "t_x\t**f(%s)", "unsigned long\tf(%s)",
               "int\t(*f(%s))(int)", "int\t(*f(%s))(int, int, int, int, int)", "void\t(*f(%s))(void)"]


def params_case(n, r, proto, ftype, shape=None):
    shape = shape or r.choice(HEAD_SHAPES)
    if proto and shape.startswith("static") and ftype == "h":
        shape = "int\tf(%s)"
    ps = []
    for k in range(n):
        form = r.choice(PARAM_FORMS if r.random() < 0.7 else PARAM_FORMS[:2])
        ps.append(form % chr(ord("a") + k))
    head = shape % ", ".join(ps)
    tries = 0
    while vis_width(head) > 79 and tries < 50:
        tries += 1
        ps = [(r.choice(["int %s", "char *%s"]) % chr(ord("a") + k)) for k in range(n)]
        head = shape % ", ".join(ps)
    if vis_width(head) > 79:
        return None
    if ftype == "h":
        hdr = header42("test.h") + "\n"
        lines = ["#ifndef TEST_H", "# define TEST_H", "", head + ";", "", "#endif"]
        m = len(hdr.split("\n")) - 1 + 4
        return "test.h", hdr + "\n".join(lines) + "\n", m
    if proto:
        lines = [head + ";", "", "int\tg(void)", "{", "\treturn (0);", "}"]
    else:
        lines = [head, "{", "\treturn (0);", "}"]
    return "test.c", HDR + "\n".join(lines) + "\n", len(HDR.split("\n")) - 1 + 1


VAR_FORMS = [("int", "%s"), ("char", "*%s"), ("int", "%s[10]"), ("char", "**%s"), ("long", "%s"), ("t_x", "*%s"),
             ("unsigned int", "%s"), ("int", "%s[2][2]")]


def vars_case(n, r):
    decls = [r.choice(VAR_FORMS) for _ in range(n)]
    end = max(vis_width("\t" + t) for t, _ in decls)
    col = (end // 4 + 1) * 4
    lines = ["int\tf(void)", "{"]
    dl = []
    for k, (t, nm) in enumerate(decls):
        s = "\t" + t
        while vis_width(s) < col:
            s += "\t"
        dl.append(len(lines) + 1)
        lines.append(s + (nm % ("v%d" % k)) + ";")
    lines += ["", "\treturn (0);", "}"]
    base = len(HDR.split("\n")) - 1
    return "test.c", HDR + "\n".join(lines) + "\n", [base + d for d in dl]


# ------------------------------------------------------------------ driver

def all_cases(spec):
    r = random.Random("c03/%s" % spec["seed"])
    k = 0
    for c in width_cases(r, spec["reps"]):
        k += 1
        if k % spec["nshards"] == spec["shard"]:
            yield c
    r = random.Random("c03c/%s/%d" % (spec["seed"], spec["shard"]))
    reps = spec["reps"]
    for rep in range(reps * 2):
        for n in range(22, 32):
            c = lines_case(n, r, "c03/%s/%d/%d/%d" % (spec["seed"], spec["shard"], rep, n))
            if c:
                yield ("lines", "body", n, c[3], c[0], c[1], c[2])
    for rep in range(reps):
        for n in range(2, 12):
            nm, src, heads = funcs_case(n, r)
            yield ("funcs", "file", n, {}, nm, src, heads)
            nm, src, heads = funcs_case(n, r, between=True)
            yield ("funcs", "file/lines_between_head_and_body", n, {}, nm, src, heads)
        for n in range(1, 11):
            for proto, ft in ((False, "c"), (True, "c"), (True, "h")):
                for shape in ([None] if rep else HEAD_SHAPES[1:]):
                    c = params_case(n, r, proto, ft, shape)
                    if c:
                        sk = "plain" if shape is None else ("returns_function_pointer" if "(*f(" in shape else "plain")
                        yield ("params", ("proto_" + ft if proto else "definition") + "/" + sk, n, {}, c[0], c[1], c[2])
        for n in range(2, 12):
            nm, src, dl = vars_case(n, r)
            yield ("vars", "function", n, {}, nm, src, dl)


LIMITS = {"width": (80, "LINE_TOO_LONG"), "lines": (25, "TOO_MANY_LINES"), "funcs": (5, "TOO_MANY_FUNCS"),
          "params": (4, "TOO_MANY_ARGS"), "vars": (5, "TOO_MANY_VARS_FUNC")}


def judge(sh, limit, kind, n, ctx, name, src, where):
    L, code = LIMITS[limit]
    r = core.api_run(name, src, clock=False)
    sh.case(name + "\0" + src)
    sh.count("c03.code_iff_over_limit")
    sh.cover("contexts", "%s/%s/%s" % (limit, kind, sorted(ctx.items())))
    sh.tally("by_limit", limit)
    case = {"name": name, "src": src, "mode": "api", "limit": limit, "kind": kind, "n": n, "where": where, "ctx": ctx}
    detail = {"limit": limit, "kind": kind, "n": n, "L": L, "code": code}
    detail.update(ctx)
    if r.outcome != "ok":
        detail.update({"outcome": r.outcome, "why": str(r.detail)[:120]})
        sh.violation("not_analysed", (limit, kind), case, detail)
        return
    got = [d for d in r.diags if d[0] == code]
    lines = [d[2] for d in got]
    if limit == "width":
        here = [x for x in lines if x == where]
        also = ctx.get("also_long", [])
        others = [x for x in lines if x != where and x not in also]
        for a in also:
            if a not in lines:
                detail["unreported_long_line"] = a
                sh.violation("boundary", (limit, kind, "neighbour_line"), case, detail)
        if others:
            detail["other_lines"] = others
            sh.violation("spurious", (limit, kind), case, detail)
        present = bool(here)
    elif limit == "lines":
        # reported at the end of the measured function (closing brace line or the line after)
        here = [x for x in lines if where <= x <= where + 2]
        others = [x for x in lines if not (where <= x <= where + 2)]
        if others:
            detail["other_lines"] = others
            sh.violation("spurious", (limit, kind), case, detail)
        present = bool(here)
    elif limit == "funcs":
        present = bool(got)
        if present and n > L:
            want = where[L:]
            if sorted(set(lines)) != want:
                detail.update({"expected_lines": want, "got_lines": lines})
                sh.violation("wrong_place", (limit, kind), case, detail)
    elif limit == "params":
        present = where in lines
        if [x for x in lines if x != where]:
            detail["other_lines"] = lines
            sh.violation("spurious", (limit, kind), case, detail)
    else:
        present = bool(got)
        if present and n > L:
            want = where[L:]
            if sorted(set(lines)) != want:
                detail.update({"expected_lines": want, "got_lines": lines})
                sh.violation("wrong_place", (limit, kind), case, detail)
    if present != (n > L):
        detail["reported"] = present
        sh.violation("boundary", (limit, kind, "over" if n > L else "within"), case, detail)


def run_shard(spec):
    sh = Shard(max_per_sig=4)
    if "replay" in spec:
        return sh.result()
    for limit, kind, n, ctx, name, src, where in all_cases(spec):
        judge(sh, limit, kind, n, ctx, name, src, where)
        if limit == "width" and n == 81:
            sh.sample({"limit": limit, "kind": kind, "n": n, "ctx": ctx, "measured_line": src.split("\n")[where - 1]}, cap=2)
    return sh.result()


def replay(case, sh):
    judge(sh, case["limit"], case["kind"], case["n"], case.get("ctx", {}), case["name"], case["src"], case["where"])


def finish(merged, tier, seed):
    a = merged["asserts"]
    inc = []
    by = merged["cov"].get("by_limit", {})
    for lim in LIMITS:
        if by.get(lim, 0) < 30:
            inc.append("only %d cases for limit %s" % (by.get(lim, 0), lim))
    return {"inconclusive": inc,
            "coverage": {"cases_by_limit": by, "distinct_contexts": len(merged["cov"].get("contexts", []))},
            "summary": ["cases by limit: %s; %d distinct (limit, kind, context) combinations" % (
                by, len(merged["cov"].get("contexts", [])))]}
