"""C12 - alternative spellings and line splices do not change the tokens (DESIGN §4.12).

Relations between two monitored lexer runs (M-LEX records every token):
 (a) every subset of punctuator occurrences (sites from the IR) respelt as
     digraph / trigraph  => same sequence of (type, value);
 (b) every subset of token boundaries (IR segment boundaries) receiving a
     backslash-newline or ??/-newline => same sequence of (type, value);
 (c) braces and brackets only, files staying within 80 columns => same
     observation of the whole pipeline after deleting the column component.
Plus the operator table: every operator spelt with trigraph parts lexes to the
same single token as its standard spelling (longest match).
"""
import random

from nv import core, relwork
from nv.run import Shard

ID = "C12"
LEVEL = "exploration"
RULE = ("pairs over generated conforming/violating programs and lexeme soups: (a) 8 random subsets of respellable "
        "punctuators per file, (b) 6 random subsets of token boundaries per file, (c) brace/bracket respellings through "
        "the whole pipeline; plus the exhaustive operator-spelling table; non-trivial = the variant differs from the "
        "original; distinct = distinct text pair")
ASSUMPTIONS = ["IR segment boundaries are token boundaries", "a respelling is skipped where it would touch < > % : ? = "
               "(where C itself would form another token)"]
WORKER_TIMEOUT = {"quick": 600, "thorough": 3600}

ALT = {"{": ["<%", "??<"], "}": ["%>", "??>"], "[": ["<:", "??("], "]": [":>", "??)"], "#": ["%:", "??="],
       "^": ["??'"], "|": ["??!"], "~": ["??-"]}
RISKY = set("<>%:?=")


def plan(tier, seed):
    q = tier == "quick"
    n = 16 if q else 48
    return [{"mode": "pairs", "seed": seed, "shard": i, "n": 24 if q else 200} for i in range(n)] + [{"mode": "optable"}]


def toks(name, src):
    r = core.api_run(name, src, lex_only=True, clock=False, want_tokens=True)
    return r, [(t[0], t[1]) for t in r.sess.tokens]


def flat(p):
    """[(text, cls, line index)] with explicit newline items"""
    out = []
    for li, l in enumerate(p.lines):
        for t, c in l.segs:
            if t:
                out.append((t, c, l.kind))
        out.append(("\n", "ws:nl", l.kind))
    return out


def respell(items, r, only_brackets=False, prob=0.5):
    """respell punctuator characters inside non-literal segments; -> (new text, count)"""
    out = []
    n = 0
    for k, (t, c, lk) in enumerate(items):
        if lk == "hdr" or c.startswith(("const", "comment", "pp:path", "id", "ws")) or c == "hdr":
            out.append(t)
            continue
        prev_t = items[k - 1][0] if k else "\n"
        next_t = items[k + 1][0] if k + 1 < len(items) else "\n"
        new = []
        for j, ch in enumerate(t):
            alts = ALT.get(ch)
            if alts and (not only_brackets or ch in "{}[]") and r.random() < prob:
                before = t[j - 1] if j else prev_t[-1:]
                after = t[j + 1] if j + 1 < len(t) else next_t[:1]
                # a trigraph is replaced in translation phase 1 whatever surrounds it (also right after a `?`);
                # a digraph is a token of its own and must not touch < > % : = on either side
                choices = [a for a in alts if a.startswith("??") or not (before in RISKY or after in RISKY)]
                if not choices:
                    new.append(ch)
                    continue
                # parts of multi-character operators keep their partner: ^= |= ||
                new.append(r.choice(choices))
                n += 1
            else:
                new.append(ch)
        out.append("".join(new))
    return "".join(out), n


def splice(items, r, prob=0.15, long_run=False):
    out = []
    n = 0
    done_long = False
    for k, (t, c, lk) in enumerate(items):
        out.append(t)
        if k + 1 >= len(items) or lk == "hdr" or items[k + 1][2] == "hdr":
            continue
        nt, nc, _ = items[k + 1]
        if c.startswith("comment:line") or c == "ws:nl" and False:
            continue        # C itself continues a // comment over a splice
        if t[-1:].isalnum() and nt[:1].isalnum() or t[-1:] == "_" or nt[:1] == "_" and t[-1:].isalnum():
            continue        # would glue two identifier-like tokens in C
        if t[-1:] == "\\":
            continue
        if r.random() < prob:
            out.append(r.choice(["\\\n", "??/\n"]))
            n += 1
            if long_run and not done_long and r.random() < 0.1:
                # very many splices at one and the same token boundary
                out.append(r.choice(["\\\n", "??/\n"]) * r.choice([99, 100, 101, 1000, 1500]))
                done_long = True
    return "".join(out), n


STRAY = ["$", "@", "`", "\x0c", "\x0b", "\u00e9", "\x85", "\u2028", "\x1c", "\r"]


def hostile(items, r):
    """the same file with characters no token starts with dropped at a few token boundaries and inside comments
    (form feed, vertical tab, U+0085, U+2028 ...: line ends for str.splitlines, nothing for C)"""
    out = []
    n = 0
    for k, (t, c, lk) in enumerate(items):
        if lk != "hdr" and c.startswith("comment") and r.random() < 0.5 and len(t) > 4:
            j = r.randint(2, len(t) - 2)
            if t[j - 1] != "\\" and "\n" not in t[j - 1:j + 1]:
                t = t[:j] + r.choice(STRAY[3:9]) + t[j:]
                n += 1
        if lk != "hdr" and c == "ws:nl" and k and items[k - 1][1] != "ws:nl" and not items[k - 1][1].startswith("comment") and r.random() < 0.03:
            # a literal left open at the end of a line (the lexer gives up on it at the line end)
            out.append((r.choice([" 'q", " \"abc", " '", " L'x"]), "bad", lk))
            n += 1
        out.append((t, c, lk))
        if lk != "hdr" and c != "ws:nl" and not c.startswith("comment:line") and r.random() < 0.02 and t[-1:] != "\\":
            out.append((r.choice(STRAY), "bad", lk))
            n += 1
    if not n:
        k = next((i for i, x in enumerate(out) if x[2] != "hdr"), 0)
        out.insert(k, ("/* page\x0cbreak */\n", "comment:block", "comment"))
    return out


def strip_cols(o):
    if o[0] != "ok":
        return o
    return (o[0], o[1], sorted((c, lv, ln) for (c, lv, ln, col) in o[2]))


def run_pairs(spec):
    sh = Shard(max_per_sig=3)
    r = random.Random("c12/%s/%d" % (spec["seed"], spec["shard"]))
    nh = 0
    for p, tag in relwork.corpus(spec, nvar=2, force=("V31", "V31b")):
        items = flat(p)
        src = p.text()
        assert "".join(t for t, _, _ in items) == src or not p.final_nl
        r0, base = toks(p.name, src)
        if r0.outcome != "ok":
            continue
        for rep in range(4):
            v, n = respell(items, r, prob=r.choice([0.2, 0.5, 1.0]))
            if n:
                r1, t1 = toks(p.name, v)
                sh.case("a\0" + src + "\0" + v)
                sh.count("c12.respelling_same_tokens")
                sh.tally("relations", "respell")
                sh.tally("sites", "respelt", n)
                if r1.outcome != "ok" or t1 != base:
                    sh.violation("respelling_changes_tokens", (tag.split(":")[1], _first_tok_diff(base, t1)),
                                 {"mode": "lexpair", "name": p.name, "a": src, "b": v}, {"first_difference": _first_tok_diff(base, t1)})
        for rep in range(3):
            v, n = splice(items, r, prob=r.choice([0.05, 0.15, 0.5]), long_run=(rep == 2))
            if n:
                r1, t1 = toks(p.name, v)
                sh.case("b\0" + src + "\0" + v)
                sh.count("c12.splices_same_tokens")
                sh.tally("relations", "splice")
                sh.tally("sites", "splices", n)
                if r1.outcome != "ok" or t1 != base:
                    sh.violation("splice_changes_tokens", (tag.split(":")[1], _first_tok_diff(base, t1)),
                                 {"mode": "lexpair", "name": p.name, "a": src, "b": v}, {"first_difference": _first_tok_diff(base, t1)})
        # the same two relations with stray characters around: before a respelt punctuator, right before a splice
        nh += 1
        if nh % 2 == 0:
            items2 = hostile(items, r)
            src2 = "".join(t for t, _, _ in items2)
            r0, base2 = toks(p.name, src2)
            if r0.outcome == "ok":
                for rep in range(3):
                    if rep < 2:
                        v, n = respell(items2, r, prob=r.choice([0.5, 1.0]))
                        rel = "respelling_changes_tokens"
                    else:
                        v, n = splice(items2, r, prob=0.5)
                        rel = "splice_changes_tokens"
                    if not n:
                        continue
                    r1, t1 = toks(p.name, v)
                    sh.case("h\0" + src2 + "\0" + v)
                    sh.count("c12.same_tokens_with_stray_characters_around")
                    sh.tally("relations", "hostile_" + rel.split("_")[0])
                    if r1.outcome != "ok" or t1 != base2:
                        sh.violation(rel, ("stray", _first_tok_diff(base2, t1)),
                                     {"mode": "lexpair", "name": p.name, "a": src2, "b": v}, {"first_difference": _first_tok_diff(base2, t1)})
        # (c) whole pipeline, braces and brackets, columns ignored
        for rep in range(2):
            # sites followed by a tab on the same line would change an alignment: keep those lines untouched
            its = [(t, ("id" if any(x[1] == "ws:tab" for x in _rest_of_line(items, k)) else c), lk) for k, (t, c, lk) in enumerate(items)]
            v, n = respell(its, r, only_brackets=True, prob=0.6)
            if not n or max(len(x.expandtabs(4)) for x in v.split("\n")) > 80:
                continue
            a, _ = relwork.obs_of(p.name, src)
            b, _ = relwork.obs_of(p.name, v)
            sh.case("c\0" + src + "\0" + v)
            sh.count("c12.brackets_same_diagnostics_modulo_column")
            sh.tally("relations", "pipeline")
            if strip_cols(a) != strip_cols(b):
                d = relwork.diff(strip_cols(a), strip_cols(b))
                sh.violation("respelling_changes_diagnostics", (tag.split(":")[1],) + relwork.sig_of_diff(d),
                             {"mode": "obspair", "name": p.name, "a": src, "b": v}, d)
        sh.sample({"respelt_excerpt": _excerpt(respell(items, r, prob=1.0)[0])}, cap=1)
    return sh


def _rest_of_line(items, k):
    out = []
    for x in items[k + 1:]:
        if x[1] == "ws:nl":
            break
        out.append(x)
    return out


def _excerpt(v):
    ls = [l for l in v.split("\n") if "??" in l or "<%" in l or "<:" in l]
    return ls[:3]


def _first_tok_diff(a, b):
    for k, (x, y) in enumerate(zip(a, b)):
        if x != y:
            return "%s/%s" % (x[0], y[0])
    return "length %d/%d" % (len(a), len(b))


def run_optable():
    """every operator / bracket spelling with trigraph or digraph parts lexes to the same single token"""
    from nv.oracle import TRIGRAPHS, DIGRAPHS
    sh = Shard()
    std = [">>=", "<<=", "...", "->", "++", "--", "<<", ">>", "<=", ">=", "==", "!=", "&&", "||", "+=", "-=", "*=", "/=",
           "%=", "&=", "|=", "^=", "+", "-", "*", "/", "%", "<", ">", "=", "!", "&", "|", "^", "~", "?", ":", ";", ",",
           ".", "#", "(", ")", "[", "]", "{", "}"]
    inv = {}
    for k, v in TRIGRAPHS.items():
        inv.setdefault(v, []).append(k)
    for k, v in DIGRAPHS.items():
        inv.setdefault(v, []).append(k)
    import itertools
    for op in std:
        _, base = toks("t.c", "a " + op + " b")
        choices = [[ch] + inv.get(ch, []) for ch in op]
        if len(op) == 1:
            choices = [[op] + inv.get(op, [])]
        for combo in itertools.product(*choices):
            sp = "".join(combo)
            if sp == op:
                continue
            for ctx in ("a %s b", "a%sb", "(%s)", "%s\n"):
                _, b0 = toks("t.c", ctx % op)
                r1, b1 = toks("t.c", ctx % sp)
                sh.case(ctx % sp)
                sh.count("c12.operator_spelling_table")
                if b0 != b1:
                    sh.violation("operator_spelling", (op, sp), {"mode": "lexpair", "name": "t.c", "a": ctx % op, "b": ctx % sp},
                                 {"op": op, "spelling": sp, "first_difference": _first_tok_diff(b0, b1)})
    sh.sample({"operator_spellings": "??!??! ??!= ??'= <: :> <% %> %: ??= ..."})
    return sh


def run_shard(spec):
    if spec["mode"] == "optable":
        return run_optable().result()
    return run_pairs(spec).result()


def replay(case, sh):
    sh.evaluations += 1
    if case["mode"] == "obspair":
        a, _ = relwork.obs_of(case["name"], case["a"])
        b, _ = relwork.obs_of(case["name"], case["b"])
        if strip_cols(a) != strip_cols(b):
            sh.violation("respelling_changes_diagnostics", ("replay",), case, relwork.diff(strip_cols(a), strip_cols(b)))
        return
    _, a = toks(case["name"], case["a"])
    _, b = toks(case["name"], case["b"])
    if a != b:
        sh.violation("tokens_differ", ("replay",), case, {"first_difference": _first_tok_diff(a, b)})


def finish(merged, tier, seed):
    a = merged["asserts"]
    inc = []
    for k, floor in (("c12.respelling_same_tokens", 500), ("c12.splices_same_tokens", 500),
                     ("c12.brackets_same_diagnostics_modulo_column", 200), ("c12.operator_spelling_table", 50)):
        if a.get(k, 0) < floor:
            inc.append("%s evaluated only %d times" % (k, a.get(k, 0)))
    return {"inconclusive": inc, "coverage": {"relations": merged["cov"].get("relations"), "sites": merged["cov"].get("sites"),
                                              "exhaustive_subspaces": ["every spelling of every operator/bracket with "
                                                                       "trigraph/digraph parts, in 4 contexts"]},
            "summary": ["relations %s sites %s" % (merged["cov"].get("relations"), merged["cov"].get("sites"))]}
