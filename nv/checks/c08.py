"""C08 - reports are well-formed, ordered and identical in both formats (DESIGN §4.8).

Deciding monitors: M-DIAG emission-time assertions (catalogue code + text,
level, >= 1 highlight, position range) on every diagnostic of every workload;
formatter comparison (humanized vs JSON, in-process and through the CLI, with
and without colours); order of the printed (line, column) sequence; and the
comparator laws of Error.__lt__ checked exhaustively on a 1026-value domain.
"""
import itertools
import json
import os
import random
import shutil
import tempfile

from nv import core, pipework, cliobs, oracle
from nv.gen import literals
from nv.run import Shard

ID = "C08"
LEVEL = "exploration"
RULE = ("generated conforming files, one-violation variants, files carrying several diagnostics per line, lexical "
        "diagnostics with several highlights (malformed literals of every family) and non-ASCII text; file lists of 1-5 "
        "files through both formatters in-process and through the CLI; plus all pairs and triples of diagnostics over "
        "a 1026-value domain (3 names x 1-2 highlights x 6 positions x 3 hints). Non-trivial = the file produced >= 1 "
        "diagnostic (reports) / every pair (comparator); distinct = distinct text / distinct pair")
ASSUMPTIONS = ["oracle.parse_humanized / parse_json_report are strict parsers of the two published formats",
               "highlight-less Errors are outside the domain (nothing emits them, the formatter cannot print them)"]
WORKER_TIMEOUT = {"quick": 600, "thorough": 3600}


def plan(tier, seed):
    q = tier == "quick"
    specs = pipework.plan_programs(tier, seed, "C08", nshards=12 if q else 48, per_shard=20 if q else 160)
    specs += [{"mode": "cli", "seed": seed, "shard": i, "n": 10 if q else 80} for i in range(4)]
    specs += [{"mode": "comparator", "part": i, "parts": 4} for i in range(4)]
    return specs


# ------------------------------------------------------------------ workload pieces

def lexical_error_file(r, name="lex.c"):
    """a .c file whose statements hold malformed constants of every family (multi-highlight lexical diagnostics)"""
    mal = [m for m in literals.malformed() if "\n" not in m[0] and not m[1].endswith(("_eof", "comment_eof", "char_eol"))]
    r.shuffle(mal)
    lines = ["int\tf(void)", "{", "\tint\ta;", ""]
    for sp, fam, code in mal[:r.randint(3, 12)]:
        lines.append("\ta = %s;" % sp)
    if r.random() < 0.5:
        lines.append("\ta = %s + %s;" % (mal[0][0], mal[1][0]))     # two lexical diagnostics on one line
    if r.random() < 0.4:
        lines.append("\ta = a %s 1;" % r.choice(["@", "$", "`", "@@"]))   # characters that start no token
    # diagnostics with several highlights at different positions
    for extra in r.sample(["\ta = 0898;", "\ta = 0b1201304;", "\ta = 09129 + 08;", "\ta = 'ab", "\ta = 'a' + 'bc", "\ta = 'ab;"],
                          r.randint(1, 3)):
        lines.append(extra)
    if r.random() < 0.3:
        lines.append("\ta = \"abc")      # unterminated string: swallows the rest of the file into one diagnostic
        lines += ["\treturn (a);", "}"]
        return name, "\n".join(lines) + "\n"
    lines += ["\treturn (a);", "}"]
    return name, "\n".join(lines) + "\n"


def long_line_file(r, name="long.c"):
    """diagnostics beyond column 1000 followed by diagnostics at small columns on the next lines"""
    k = r.choice([260, 300, 400, 1200])
    lines = ["int\tg_a = " + " + ".join(["1"] * k) + "+1;", "int g_b;", "int\tg_c = 2+2;"]
    return name, "\n".join(lines) + "\n"


def multi_diag_file(r, name="multi.c"):
    """several rule diagnostics on the same line and on many lines"""
    lines = ["int f( int a,int b )", "{", "  int  c ;", "\tc=a+b ;return c;", "  if(a==b){c++;}", "}", "", ""]
    r.shuffle(lines)
    return name, "\n".join(lines) + "\n"


def non_ascii_file(r, name="uni.c"):
    return name, "// café € \U0001F600\nint\tf(void)\n{\n\treturn ('é');\n}\nchar\t*g_s = \"naïve\";\n"


# ------------------------------------------------------------------ in-process part

def printed_views(file_obj):
    from norminette.errors import HumanizedErrorsFormatter, JSONErrorsFormatter
    h = str(HumanizedErrorsFormatter([file_obj], use_colors=False))
    hc = str(HumanizedErrorsFormatter([file_obj], use_colors=True))
    j = str(JSONErrorsFormatter([file_obj]))
    return h, hc, j


def compare_reports(sh, hum, js, case, where):
    """same files, verdicts and diagnostics, in the same order"""
    sh.count("c08.formats_describe_the_same_report")
    try:
        hf = oracle.parse_humanized(hum)
    except oracle.ReportParseError as e:
        sh.violation("humanized_unparsable", (where,), case, {"error": str(e)[:200]})
        return None
    try:
        jf, extra = oracle.parse_json_report(js)
    except (oracle.ReportParseError, KeyError, IndexError, TypeError) as e:
        sh.violation("json_invalid", (where, type(e).__name__), case, {"error": str(e)[:200]})
        return None
    a = [(f["name"], f["status"], f["diags"]) for f in hf]
    b = [(f["name"], f["status"], f["diags"]) for f in jf]
    if a != b:
        d = {"where": where}
        for x, y in zip(a, b):
            if x != y:
                d.update({"humanized": [x[0], x[1], x[2][:3]], "json": [y[0], y[1], y[2][:3]]})
                break
        d["n_files"] = [len(a), len(b)]
        sh.violation("formats_disagree", (where,), case, d)
    return hf


def check_order(sh, hf, case, where):
    for f in hf:
        sh.count("c08.ascending_line_column_order")
        pos = [(d[2], d[3]) for d in f["diags"]]
        if pos != sorted(pos):
            k = next(i for i in range(len(pos) - 1) if pos[i] > pos[i + 1])
            sh.violation("not_ascending", (where,), case, {"file": f["name"], "at": [f["diags"][k][:4], f["diags"][k + 1][:4]]})


def run_programs(spec):
    from norminette.file import File
    sh = Shard(max_per_sig=3)
    rng = random.Random("c08/" + pipework.prog_seed(spec, -1))
    for p, tag in pipework.base_programs(spec):
        items = [(p.name, p.text(), "conf")] + [(q.name, q.text(), "viol") for q, o, _ in pipework.sampled_variants(p, rng, 3)]
        items.append(lexical_error_file(rng) + ("lexical",))
        items.append(multi_diag_file(rng) + ("multi",))
        if rng.random() < 0.25:
            items.append(long_line_file(rng) + ("long_line",))
        if rng.random() < 0.2:
            items.append(non_ascii_file(rng) + ("unicode",))
        # declaration-shaped statements in random order (G-DECL): whatever the rules make of them, what they report
        # is well-formed and printed alike in both formats
        from nv.gen import decls
        for _ in range(4):
            items.append(decls.source(rng) + ("decl_shaped",))
        for name, src, kind in items:
            case = {"name": name, "src": src, "mode": "api"}
            r = core.api_run(name, src, clock=False)
            sh.case(name + "\0" + src, nontrivial=len(r.sess.diags) > 0)
            sh.tally("files", kind)
            sh.add_asserts({k: v for k, v in r.sess.asserts.items() if k.startswith("diag.")})
            pipework.monitor_failures(sh, r, case, diag=True)
            if r.outcome == "crash":
                d = r.detail
                sh.violation("crash_while_reporting", d, case, {"exc": d[0], "where": d[1], "rule": d[2]})
                continue
            if r.outcome != "ok":
                continue
            # both formatters on the real File object that the run filled
            f = File(name, src)
            for dg in r.sess.diags:
                pass
            f2 = _rerun_file(name, src)
            h, hc, j = printed_views(f2)
            hf = compare_reports(sh, h, j, case, "in-process")
            sh.count("c08.colours_do_not_change_the_report")
            try:
                if oracle.parse_humanized(hc) != oracle.parse_humanized(h):
                    sh.violation("colours_change_report", ("in-process",), case, {})
            except oracle.ReportParseError as e:
                sh.violation("humanized_unparsable", ("colours",), case, {"error": str(e)[:200]})
            if hf is not None:
                check_order(sh, hf, case, "in-process")
                # the printed report is what the rules emitted
                sh.count("c08.printed_equals_emitted")
                emitted = sorted((d["code"], d["level"], d["hl"][0][0], d["hl"][0][1]) for d in r.sess.diags if d["hl"])
                printed = sorted((d[0], d[1], d[2], d[3]) for d in hf[0]["diags"]) if hf else []
                if emitted != printed:
                    sh.violation("printed_differs_from_emitted", (kind,), case,
                                 {"only_emitted": [x for x in emitted if x not in printed][:3],
                                  "only_printed": [x for x in printed if x not in emitted][:3]})
        sh.sample({"file": items[-1][0], "text": items[-1][1][:200]}, cap=1)
    return sh


def _rerun_file(name, src):
    """a File filled by an unmonitored run (the formatters get the tool's own objects)"""
    import contextlib
    import io
    from norminette.file import File
    from norminette.lexer import Lexer
    from norminette.context import Context
    f = File(name, src)
    with contextlib.redirect_stdout(io.StringIO()):
        ctx = Context(f, list(Lexer(f)), 0)
        core.registry().run(ctx)
    return f


# ------------------------------------------------------------------ CLI part

def run_cli(spec):
    sh = Shard()
    rng = random.Random("c08cli/%s/%d" % (spec["seed"], spec["shard"]))
    tmp = tempfile.mkdtemp(prefix="nv_c08_")
    try:
        for k in range(spec["n"]):
            d = os.path.join(tmp, "d%d" % k)
            os.mkdir(d)
            nfiles = rng.randint(1, 5)
            names = []
            texts = {}
            gen = pipework.base_programs({"seed": spec["seed"], "shard": 700 + spec["shard"] * 100 + k, "n": nfiles})
            for i, (p, tag) in enumerate(gen):
                choice = rng.random()
                if choice < 0.35:
                    name, src = "f%d.%s" % (i, p.ftype), p.text()
                elif choice < 0.6:
                    vs = list(pipework.sampled_variants(p, rng, 1))
                    name, src = "f%d.%s" % (i, p.ftype), (vs[0][0].text() if vs else p.text())
                elif choice < 0.8:
                    name, src = lexical_error_file(rng, "f%d.c" % i)
                elif choice < 0.9:
                    name, src = multi_diag_file(rng, "f%d.c" % i)
                else:
                    name, src = non_ascii_file(rng, "f%d.c" % i)
                # a file that ends in a fatal parse error aborts the whole run (C04): keep verdict files only
                r0 = core.api_run(name, src, clock=False)
                if r0.outcome != "ok":
                    continue
                with open(os.path.join(d, name), "w", encoding="utf-8") as f:
                    f.write(src)
                names.append(name)
                texts[name] = src
            if not names:
                continue
            if rng.random() < 0.35:
                # a path mentioned twice (also spelt differently) is analysed and listed twice in both formats
                names = names + [rng.choice(["", "./"]) + names[0]]
            case = {"mode": "cli", "files": texts, "argv_names": names}
            outs = {}
            for opts in (["-f", "humanized", "--no-colors"], ["-f", "humanized"], ["-f", "json"], ["-f", "json", "--no-colors"]):
                r = cliobs.run_cli(opts + names, cwd=d, trace=False)
                outs[" ".join(opts)] = r
                if r.timeout or r.traceback():
                    sh.violation("cli_failed", (" ".join(opts),), case, {"stderr": r.stderr[-300:]})
            sh.case("cli\0" + "\0".join(texts[os.path.basename(n)] for n in names), nontrivial=True)
            sh.tally("files", "cli_lists")
            rh, rj = outs["-f humanized --no-colors"], outs["-f json"]
            hf = compare_reports(sh, rh.stdout, rj.stdout, case, "cli")
            if hf is not None:
                check_order(sh, hf, case, "cli")
                if [f["name"] for f in hf] != [os.path.basename(n) for n in names]:
                    sh.violation("cli_files_listed", ("names",), case, {"expected": names, "got": [f["name"] for f in hf]})
            sh.count("c08.colours_do_not_change_the_report")
            try:
                if oracle.parse_humanized(outs["-f humanized"].stdout) != oracle.parse_humanized(rh.stdout):
                    sh.violation("colours_change_report", ("cli",), case, {})
                if json.loads(outs["-f json --no-colors"].stdout) != json.loads(rj.stdout):
                    sh.violation("colours_change_report", ("cli-json",), case, {})
            except (oracle.ReportParseError, ValueError) as e:
                sh.violation("report_unparsable", ("cli",), case, {"error": str(e)[:200]})
            sh.count("c08.exit_status_same_in_both_formats")
            if len(set(o.rc == 0 for o in outs.values())) != 1:
                sh.violation("exit_status_depends_on_format", ("cli",), case, {k2: o.rc for k2, o in outs.items()})
            # the same ASCII files below a directory whose name is not ASCII (valid UTF-8, and bytes that are not
            # UTF-8 at all), with the standard streams in several encodings: both reports stay parsable and equal
            plain = [n for n in dict.fromkeys(os.path.basename(x) for x in names) if texts[n].isascii()]
            if k % 2 == 0 and plain:
                dname = [b"caf\xc3\xa9 \xe6\x97\xa5", b"caf\xe9", b"\xff\xfe dir"][(k // 2) % 3]
                bd = os.path.join(os.fsencode(d), dname)
                os.mkdir(bd)
                for n in plain:
                    with open(os.path.join(bd, os.fsencode(n)), "w", encoding="utf-8") as f:
                        f.write(texts[n])
                for envx in ({}, {"PYTHONIOENCODING": "ascii"}, {"PYTHONIOENCODING": "latin-1"}, {"LC_ALL": "C", "PYTHONUTF8": "0", "PYTHONCOERCECLOCALE": "0"}):
                    rh2 = cliobs.run_cli(["-f", "humanized", "--no-colors"] + plain, cwd=bd, trace=False, env_extra=envx)
                    rj2 = cliobs.run_cli(["-f", "json"] + plain, cwd=bd, trace=False, env_extra=envx)
                    case2 = {"mode": "cli_dir", "files": {n: texts[n] for n in plain}, "argv_names": plain, "dir_hex": dname.hex(), "env": envx}
                    sh.case("clidir\0" + dname.hex() + repr(sorted(envx.items())) + "\0".join(texts[n] for n in plain))
                    sh.tally("files", "cli_lists_in_non_ascii_directory")
                    sh.count("c08.formats_agree_in_a_non_ascii_directory")
                    if rh2.timeout or rj2.timeout or rh2.traceback() or rj2.traceback():
                        sh.violation("cli_failed", ("non_ascii_directory", " ".join(sorted(envx))), case2,
                                     {"stderr": (rh2.stderr + rj2.stderr)[-300:]})
                        continue
                    compare_reports(sh, rh2.stdout, rj2.stdout, case2, "cli_dir")
            shutil.rmtree(d, ignore_errors=True)
        sh.sample({"cli_argv": "-f json f0.c f1.h ...  vs  -f humanized --no-colors f0.c f1.h ..."}, cap=1)
    finally:
        shutil.rmtree(tmp, ignore_errors=True)
    return sh


# ------------------------------------------------------------------ comparator laws

def domain():
    from norminette.errors import Error, Highlight
    names = ["AAA", "MMM", "ZZZ"]
    hls = [(l, c, h) for l in (1, 2) for c in (1, 2, 3) for h in (None, "h", "hh")]
    vals = []
    for n in names:
        for a in hls:
            vals.append((n, (a,)))
        for a in hls:
            for b in hls:
                vals.append((n, (a, b)))
    objs = [Error(n, "text", "Error", [Highlight(l, c, 1, h) for (l, c, h) in hs]) for n, hs in vals]
    return vals, objs


def wide_domain():
    """single-highlight diagnostics over a wide position range (large lines and columns)"""
    from norminette.errors import Error, Highlight
    vals = [(n, ((l, c, None),)) for n in ("AAA", "MMM", "ZZZ") for l in (1, 2, 3, 999, 1000, 1001, 65536)
            for c in (1, 2, 9, 99, 999, 1000, 1001, 4095, 4096, 100000)]
    objs = [Error(n, "text", "Error", [Highlight(l, c, 1, h) for (l, c, h) in hs]) for n, hs in vals]
    return vals, objs


def run_comparator(spec):
    sh = Shard()
    for vals, objs in ((domain()), (wide_domain())):
        _comparator_on(sh, spec, vals, objs)
    sh.cov["exhaustive_flag"] = True
    return sh


def _comparator_on(sh, spec, vals, objs):
    N = len(objs)
    lt = [0] * N
    for i in range(N):
        row = 0
        a = objs[i]
        for j in range(N):
            if a < objs[j]:
                row |= 1 << j
        lt[i] = row
    full = (1 << N) - 1
    gt = [0] * N
    for i in range(N):
        for j in range(N):
            if (lt[i] >> j) & 1:
                gt[j] |= 1 << i
    part, parts = spec["part"], spec["parts"]
    pos = [(v[1][0][0], v[1][0][1]) for v in vals]

    def desc(i):
        return {"name": vals[i][0], "highlights": [list(h) for h in vals[i][1]]}
    for i in range(part, N, parts):
        sh.count("c08.cmp.irreflexive")
        if (lt[i] >> i) & 1:
            sh.violation("cmp_irreflexive", ("x<x",), {"mode": "cmp", "a": desc(i)}, {})
        sh.count("c08.cmp.asymmetric", N)
        both = lt[i] & gt[i]
        if both:
            j = both.bit_length() - 1
            sh.violation("cmp_asymmetric", ("x<y and y<x",), {"mode": "cmp", "a": desc(i), "b": desc(j)}, {})
        # transitivity: for every b with i < b, everything above b is above i
        sh.count("c08.cmp.transitive_triples", bin(lt[i]).count("1") * N)
        row = lt[i]
        b = row
        while b:
            j = (b & -b).bit_length() - 1
            b &= b - 1
            miss = lt[j] & ~row
            if miss:
                k = miss.bit_length() - 1
                sh.violation("cmp_transitive", ("a<b<c but not a<c",), {"mode": "cmp", "a": desc(i), "b": desc(j), "c": desc(k)}, {})
                break
        # incomparability is transitive (strict weak order)
        inc = full & ~(lt[i] | gt[i])
        sh.count("c08.cmp.incomparability_transitive_triples", bin(inc).count("1") * N)
        b = inc
        while b:
            j = (b & -b).bit_length() - 1
            b &= b - 1
            incj = full & ~(lt[j] | gt[j])
            if incj & ~inc:
                k = (incj & ~inc).bit_length() - 1
                sh.violation("cmp_incomparability", ("a~b~c but not a~c",), {"mode": "cmp", "a": desc(i), "b": desc(j), "c": desc(k)}, {})
                break
        # consistent with the printed position: an earlier first highlight sorts first
        sh.count("c08.cmp.position_consistent", N)
        for j in range(N):
            if pos[i] < pos[j] and not (lt[i] >> j) & 1:
                sh.violation("cmp_position", ("earlier position not less",), {"mode": "cmp", "a": desc(i), "b": desc(j)}, {})
                break
        sh.case("cmp%d" % i)
    # sorted() of sampled lists prints in ascending order (through the real Errors container)
    from norminette.errors import Errors
    r = random.Random(part)
    for _ in range(3000):
        es = Errors()
        idx = [r.randrange(N) for _ in range(r.randint(2, 6))]
        for i in idx:
            es.add(objs[i])
        out = [(e.highlights[0].lineno, e.highlights[0].column) for e in es]
        sh.count("c08.cmp.sorted_lists_ascending")
        if out != sorted(out):
            sh.violation("cmp_sorted", ("list not ascending",), {"mode": "cmp", "list": [desc(i) for i in idx]}, {"printed": out})
            break
    return
    sh.sample({"domain_values": N, "example": desc(20)})


def run_shard(spec):
    if spec["mode"] == "cli":
        return run_cli(spec).result()
    if spec["mode"] == "comparator":
        return run_comparator(spec).result()
    return run_programs(spec).result()


def replay(case, sh):
    sh.evaluations += 1
    if case.get("mode") == "api":
        r = core.api_run(case["name"], case["src"], clock=False)
        pipework.monitor_failures(sh, r, case, diag=True)
        if r.outcome == "crash":
            d = r.detail
            sh.violation("crash_while_reporting", d, case, {"exc": d[0], "where": d[1], "rule": d[2]})
        elif r.outcome == "ok":
            f2 = _rerun_file(case["name"], case["src"])
            h, hc, j = printed_views(f2)
            hf = compare_reports(sh, h, j, case, "in-process")
            if hf is not None:
                check_order(sh, hf, case, "in-process")
    elif case.get("mode") == "cmp":
        from norminette.errors import Error, Highlight
        def mk(d):
            return Error(d["name"], "text", "Error", [Highlight(l, c, 1, h) for (l, c, h) in d["highlights"]])
        if "list" in case:
            from norminette.errors import Errors
            es = Errors()
            for d in case["list"]:
                es.add(mk(d))
            out = [(e.highlights[0].lineno, e.highlights[0].column) for e in es]
            if out != sorted(out):
                sh.violation("cmp_sorted", ("replay",), case, {"printed": out})
        else:
            a = mk(case["a"])
            b = mk(case["b"]) if "b" in case else a
            if (a < b and b < a) or ("b" not in case and a < a):
                sh.violation("cmp_law", ("replay",), case, {})
    elif case.get("mode") == "cli_dir":
        tmp = tempfile.mkdtemp(prefix="nv_c08r_")
        try:
            bd = os.path.join(os.fsencode(tmp), bytes.fromhex(case["dir_hex"]))
            os.mkdir(bd)
            for n, t in case["files"].items():
                with open(os.path.join(bd, os.fsencode(n)), "w", encoding="utf-8") as f:
                    f.write(t)
            names = list(case["argv_names"])
            rh = cliobs.run_cli(["-f", "humanized", "--no-colors"] + names, cwd=bd, trace=False, env_extra=case.get("env") or {})
            rj = cliobs.run_cli(["-f", "json"] + names, cwd=bd, trace=False, env_extra=case.get("env") or {})
            if rh.traceback() or rj.traceback():
                sh.violation("cli_failed", ("replay",), case, {"stderr": (rh.stderr + rj.stderr)[-300:]})
            else:
                compare_reports(sh, rh.stdout, rj.stdout, case, "cli_dir")
        finally:
            shutil.rmtree(tmp, ignore_errors=True)
    elif case.get("mode") == "cli":
        tmp = tempfile.mkdtemp(prefix="nv_c08r_")
        try:
            for n, t in case["files"].items():
                with open(os.path.join(tmp, n), "w", encoding="utf-8") as f:
                    f.write(t)
            names = list(case.get("argv_names") or case["files"])
            rh = cliobs.run_cli(["-f", "humanized", "--no-colors"] + names, cwd=tmp, trace=False)
            rj = cliobs.run_cli(["-f", "json"] + names, cwd=tmp, trace=False)
            hf = compare_reports(sh, rh.stdout, rj.stdout, case, "cli")
            if hf is not None:
                check_order(sh, hf, case, "cli")
        finally:
            shutil.rmtree(tmp, ignore_errors=True)


def finish(merged, tier, seed):
    a = merged["asserts"]
    inc = []
    for k, floor in (("diag.catalogue", 5000), ("c08.formats_describe_the_same_report", 500),
                     ("c08.cmp.asymmetric", 1000000), ("c08.ascending_line_column_order", 500)):
        if a.get(k, 0) < floor:
            inc.append("%s evaluated only %d times" % (k, a.get(k, 0)))
    return {"inconclusive": inc,
            "coverage": {"files": merged["cov"].get("files"),
                         "exhaustive_subspaces": ["comparator: all ordered pairs and all triples over the 1026-value domain and over a 210-value wide-position domain"]},
            "summary": ["files %s; comparator pairs %d, transitivity triples %d" % (
                merged["cov"].get("files"), a.get("c08.cmp.asymmetric", 0), a.get("c08.cmp.transitive_triples", 0))]}
