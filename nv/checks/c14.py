"""C14 - include-guard validation follows the file name (DESIGN §4.14).

Workload: generated conforming headers under base names over
[a-z_][a-z0-9_.]* (multi-dot names included), with the correct guard and with
each guard mutation; every text also under the same base name with `.c`.
Deciding monitor: M-DIAG - the set of HEADER_PROT_* codes emitted.
"""
import random
import string

from nv import core
from nv.gen import conf
from nv.gen.ir import Line, SP, TAB
from nv.run import Shard

ID = "C14"
LEVEL = "exploration"
RULE = ("header base names over [a-z_][a-z0-9_.]* (a leading digit would make the guard a non-identifier) x generated "
        "conforming header bodies x {correct guard, 8 guard mutations} x {.h, .c}; non-trivial = every case; distinct = "
        "distinct (name, text)")
ASSUMPTIONS = ["expected guard = base name upper-cased with dots replaced by underscores, as the property states"]
WORKER_TIMEOUT = {"quick": 600, "thorough": 3600}

PROT = ("HEADER_PROT_ALL", "HEADER_PROT_ALL_AF", "HEADER_PROT_NAME", "HEADER_PROT_UPPER", "HEADER_PROT_MULT",
        "HEADER_PROT_NODEF")


def plan(tier, seed):
    q = tier == "quick"
    return [{"mode": "guard", "seed": seed, "shard": i, "n": 40 if q else 500} for i in range(16)]


def rand_name(r):
    fixed = ["my.lib", "a.", "a..b", "lib_ft", "x", "_priv", "get_next_line", "a.b.c.d", "h", "c", "ft.h", "z_9"]
    if r.random() < 0.3:
        return r.choice(fixed) + ".h"
    n = r.randint(1, 14)
    s = r.choice(string.ascii_lowercase + "_") + "".join(r.choice(string.ascii_lowercase + string.digits + "_.") for _ in range(n - 1))
    return s + ".h"


def find(p, kind):
    return [i for i, l in enumerate(p.lines) if l.kind == kind]


def variants(p, guard, r, far=0):
    """(variant name, prog, expected code or None for 'no protection diagnostic', or 'ANY')"""
    yield "correct", p, None
    other = "OTHER_" + guard if len(guard) < 30 else "ZZ_H"
    i0, i1 = find(p, "pp_ifndef")[0], find(p, "pp_define_guard")[0]
    q = p.copy()
    q.lines[i0].segs[-1] = (other, "id:guard")
    q.lines[i1].segs[-1] = (other, "id:guard")
    yield "other_symbol", q, "HEADER_PROT_NAME"
    q = p.copy()
    q.lines[i0].segs[-1] = (other, "id:guard")
    yield "ifndef_wrong", q, "HEADER_PROT_NAME"
    if guard.lower() != guard:
        q = p.copy()
        q.lines[i0].segs[-1] = (guard.lower(), "id:guard")
        q.lines[i1].segs[-1] = (guard.lower(), "id:guard")
        yield "lower_case", q, "HEADER_PROT_UPPER"
    q = p.copy()
    del q.lines[i1]
    yield "define_removed", q, "HEADER_PROT_NODEF"
    q = p.copy()
    q.lines += [Line("blank", []), Line("pp_ifndef", [("#ifndef", "pp"), SP, (guard, "id:guard")]),
                Line("pp_define_guard", [("#", "pp"), SP, ("define", "pp"), SP, (guard, "id:guard")]),
                Line("pp_endif", [("#endif", "pp")])]
    yield "second_guard", q, "HEADER_PROT_MULT"
    q = p.copy()
    q.lines[i0:i0] = [Line("proto", [("int", "type"), TAB(1), ("ft_before", "id:func"), ("(", "punct"), ("void", "type"),
                                     (")", "punct"), (";", "punct")]), Line("blank", [])]
    yield "declaration_before", q, "HEADER_PROT_ALL"
    # two faults at once: each keeps its own diagnostic
    q2 = q.copy()
    j0, j1 = find(q2, "pp_ifndef")[0], find(q2, "pp_define_guard")[0]
    q2.lines[j0].segs[-1] = (other, "id:guard")
    q2.lines[j1].segs[-1] = (other, "id:guard")
    yield "other_symbol+declaration_before", q2, ["HEADER_PROT_NAME", "HEADER_PROT_ALL"]
    q2 = q.copy()
    q2.lines += [Line("blank", []), Line("proto", [("int", "type"), TAB(1), ("ft_after", "id:func"), ("(", "punct"),
                                                    ("void", "type"), (")", "punct"), (";", "punct")])]
    yield "declaration_before+declaration_after", q2, ["HEADER_PROT_ALL", "HEADER_PROT_ALL_AF"]
    if guard.lower() != guard:
        q2 = q.copy()
        q2.lines[j0].segs[-1] = (guard.lower(), "id:guard")
        q2.lines[j1].segs[-1] = (guard.lower(), "id:guard")
        yield "lower_case+declaration_before", q2, ["HEADER_PROT_UPPER", "HEADER_PROT_ALL"]
    if far:
        # the same with more than a thousand comment lines and empty lines between the declaration and the guard
        q = q.copy()
        j = find(q, "pp_ifndef")[0]
        q.lines[j:j] = [Line("comment" if k % 7 else "blank", [("// filler %d" % k, "comment:line")] if k % 7 else []) for k in range(far)]
        yield "declaration_far_before", q, "HEADER_PROT_ALL"
        q = p.copy()
        q.lines += [Line("comment" if k % 7 else "blank", [("/* filler %d */" % k, "comment:block")] if k % 7 else []) for k in range(1, far)]
        q.lines += [Line("proto", [("int", "type"), TAB(1), ("ft_after", "id:func"), ("(", "punct"), ("void", "type"), (")", "punct"), (";", "punct")])]
        yield "declaration_far_after", q, "HEADER_PROT_ALL_AF"
    q = p.copy()
    q.lines += [Line("blank", []), Line("proto", [("int", "type"), TAB(1), ("ft_after", "id:func"), ("(", "punct"),
                                                   ("void", "type"), (")", "punct"), (";", "punct")])]
    yield "declaration_after", q, "HEADER_PROT_ALL_AF"
    q = p.copy()
    e = find(q, "pp_endif")[-1]
    del q.lines[e]
    if q.lines and q.lines[-1].kind == "blank":
        del q.lines[-1]
    del q.lines[i0:i1 + 1]
    if i0 < len(q.lines) and q.lines[i0].kind == "blank":
        del q.lines[i0]
    if any(l.kind in ("proto", "td_head", "pp_define", "pp_include") for l in q.lines):
        yield "no_guard", q, "ANY"


EXTRA_DIRECTIVES = [["# pragma once"], ["# undef FOO"], ["# ifdef FOO", "# endif"], ["# if defined(FOO)", "# elif BAR", "# else", "# endif"],
                    ["# ifndef OTHER_H", "# endif"], ["# pragma pack(1)"]]


def with_directives(p, r):
    """the same header with other directives inside the protected region (none of them is a guard)"""
    q = p.copy()
    i1 = find(q, "pp_define_guard")[0]
    new = [Line("pp_other", [(t, "pp")], 1) for t in r.choice(EXTRA_DIRECTIVES)]
    q.lines[i1 + 1:i1 + 1] = [Line("blank", [])] + new
    return q


def run_shard(spec):
    sh = Shard(max_per_sig=3)
    r = random.Random("c14/%s/%d" % (spec["seed"], spec["shard"]))
    for k in range(spec["n"]):
        name = rand_name(r)
        guard = name.upper().replace(".", "_")
        p = conf.make("c14/%s/%d/%d" % (spec["seed"], spec["shard"], k), "h", name=name)
        assert p.meta["guard"] == guard
        setting = k % 4       # 0, 1: plain; 2: other directives inside the region; 3: the define-value checks switched off
        if setting == 2:
            p = with_directives(p, r)
        added = ["CheckDefine"] if setting == 3 else None
        far = [0, 1100, 0, 0, 520, 0, 0, 2300][k % 8] if k < 16 or spec["n"] > 100 else 0
        for vname, q, expect in variants(p, guard, r, far=far):
            for ext in (".h", ".c"):
                fname = name[:-2] + ext
                src = q.text()
                run = core.api_run(fname, src, clock=False, added=added)
                sh.case(fname + "\0" + src + "\0" + str(added))
                sh.count("c14.protection_codes_as_expected")
                sh.tally("cases", vname + ext)
                sh.tally("settings", ["plain", "plain", "other_directives_inside", "R_CheckDefine"][setting])
                case = {"mode": "guard", "name": fname, "src": src, "variant": vname, "expect": expect if ext == ".h" else None,
                        "added": added}
                if run.outcome != "ok":
                    sh.violation("not_analysed", (vname, ext, run.outcome), case, {"variant": vname, "ext": ext, "why": str(run.detail)[:120]})
                    continue
                got = sorted(set(d[0] for d in run.diags if d[0] in PROT))
                want = expect if ext == ".h" else None
                ok = (not got) if want is None else (bool(got) if want == "ANY" else
                                                      (all(w in got for w in want) if isinstance(want, list) else want in got))
                if not ok:
                    sh.violation("protection_codes", (vname, ext, str(want)), case,
                                 {"variant": vname, "ext": ext, "expected": want, "got": got, "n_got": len(got), "name": fname})
        sh.sample({"name": name, "guard": guard}, cap=2)
    return sh.result()


def replay(case, sh):
    run = core.api_run(case["name"], case["src"], clock=False, added=case.get("added"))
    sh.evaluations += 1
    got = sorted(set(d[0] for d in run.diags if d[0] in PROT)) if run.outcome == "ok" else None
    want = case.get("expect")
    ext = "." + case["name"].rsplit(".", 1)[-1]
    ok = got is not None and ((not got) if want is None else (bool(got) if want == "ANY" else
                                                              (all(w in got for w in want) if isinstance(want, list) else want in got)))
    if not ok:
        sh.violation("protection_codes", (case.get("variant"), ext, str(want)), case,
                     {"variant": case.get("variant"), "ext": ext, "expected": want, "got": got, "n_got": len(got or [])})


def finish(merged, tier, seed):
    a = merged["asserts"]
    inc = []
    if a.get("c14.protection_codes_as_expected", 0) < 2000:
        inc.append("only %d cases" % a.get("c14.protection_codes_as_expected", 0))
    return {"inconclusive": inc, "coverage": {"cases": merged["cov"].get("cases"), "settings": merged["cov"].get("settings")},
            "summary": ["%d (name, variant, extension) cases" % a.get("c14.protection_codes_as_expected", 0)]}
