"""C16 - options change the presentation, never the findings (DESIGN §4.16).

Workload: generated conforming / violating files x combinations of
{--no-colors, -f json|humanized, -o, -d, -dd, -R <word>} (pairwise covering on
every file, the full product on a few), and inline content (--cfile/--hfile,
with and without --filename) against the same content on disk.
Deciding monitor: M-CLI - the observation recorded inside the child (status and
every diagnostic with its emitter) must be identical across option sets for a
file that reaches a verdict in both runs; under -R CheckDefine the difference
must be exactly the events emitted by CheckPreprocessorDefine; M-IO: inline
mode opens no source file.  Printed reports are parsed as well when no debug
output is mixed in.
"""
import itertools
import os
import random
import shutil
import tempfile

from nv import core, cliobs, oracle, pipework
from nv.run import Shard

ID = "C16"
LEVEL = "exploration"
RULE = ("files: generated conforming files and one-violation variants (both types, files with #define lines included); "
        "option sets: a pairwise covering array over 5 option dimensions per file and the full product (96) on some files; "
        "inline vs on-disk for every file. Non-trivial = every (file, option set) pair; distinct = distinct (text, argv)")
ASSUMPTIONS = ["the observation is taken inside the child process from the tool's own Errors objects and M-DIAG events",
               "a pair in which a debug level turns a fatal error into extra output is skipped and counted"]
WORKER_TIMEOUT = {"quick": 900, "thorough": 3600}

DIMS = [[[], ["--no-colors"]],
        [[], ["-f", "humanized"], ["-f", "json"]],
        [[], ["-o"]],
        [[], ["-d"], ["-dd"]],
        [[], ["-R", "x"], ["-R", "CheckDefine"], ["-R", "CheckDefines"], ["-R", "NoCheckDefine,x"]]]
THOROUGH_R = [["-R", "CheckForbiddenSourceHeader"], ["-R", "checkdefine"], ["-R", "CheckForbiddenSourceHeader,CheckDefine"]]


def plan(tier, seed):
    q = tier == "quick"
    return [{"mode": "opts", "seed": seed, "shard": i, "n": 2 if q else 40, "full": 1 if q and i < 1 else (0 if q else 3)} for i in range(16)]


def pairwise(r):
    """a small covering array: every pair of values of two dimensions appears in some row"""
    rows = []
    need = set()
    for a, b in itertools.combinations(range(len(DIMS)), 2):
        for x in range(len(DIMS[a])):
            for y in range(len(DIMS[b])):
                need.add((a, x, b, y))
    while need:
        best, gain = None, -1
        for _ in range(40):
            row = [r.randrange(len(d)) for d in DIMS]
            g = sum(1 for (a, x, b, y) in need if row[a] == x and row[b] == y)
            if g > gain:
                best, gain = row, g
        rows.append(best)
        need = set(n for n in need if not (best[n[0]] == n[1] and best[n[2]] == n[3]))
    return rows


def argv_of(row):
    out = []
    for d, k in zip(DIMS, row):
        out += d[k]
    return out


def child_obs(run, basename):
    """(status, sorted events without emitter, events with emitter) of the file in the child's trace"""
    if run.trace is None:
        return None
    for f in run.trace.get("files", []):
        if f["basename"] == basename:
            if f.get("state") != "done":
                return ("no_verdict", f.get("state"), None)
            ev = f.get("events") or []
            return (f.get("status"), sorted((e[0], e[1], e[2], e[3]) for e in ev), ev)
    return None


def run_shard(spec):
    sh = Shard(max_per_sig=3)
    r = random.Random("c16/%s/%d" % (spec["seed"], spec["shard"]))
    if spec.get("full", 0) > 1 and len(DIMS[4]) < 6:
        DIMS[4].extend(THOROUGH_R)          # thorough tier: more -R words
    tmp = tempfile.mkdtemp(prefix="nv_c16_")
    try:
        files = []
        from nv.gen import conf as _conf
        progs = [_conf.make("c16/%s/%d/%d" % (spec["seed"], spec["shard"], k), "h" if (k + spec["shard"]) % 2 else "c")
                 for k in range(spec["n"])]
        for p in progs:
            files.append((p.name, p.text(), "conf"))
            for q, o, _ in pipework.sampled_variants(p, r, 1):
                files.append((q.name, q.text(), "viol:" + o["id"]))
            # a file with #define diagnostics, for -R CheckDefine
            for q, o, _ in pipework.variants(p, r, per_op=1, ops=[x for x in pipework.viol.OPS if x["id"] in ("V43", "V60", "V61")]):
                files.append((q.name, q.text(), "define:" + o["id"]))
                break
        # diagnostics with several highlights (lexical ones), and contents that are a single line without any line end
        # and hold backslash escapes: a command-line string must be taken as it is
        from nv.checks import c08 as _c08
        nm, txt = _c08.lexical_error_file(r, "lex%d.c" % spec["shard"])
        files.append((nm, txt, "lexical"))
        ONE = ["int\tg_c = '\\n';", "char\t*g_s = \"a\\nb\\tc\";", "# define NL '\\n'", "#define S \"x\\n\"", "int\tf(char *s);\\n",
               "// a\\nb", "char\tg_q = '\\\\';"]
        one = ONE[spec["shard"] % len(ONE)]
        files.append(("one.h" if one.startswith("# ") else "one.c", one, "oneliner"))
        nfull = spec["full"]
        for k, (name, src, kind) in enumerate(files):
            d = os.path.join(tmp, "f%d" % k)
            os.mkdir(d)
            with open(os.path.join(d, name), "w", encoding="utf-8") as f:
                f.write(src)
            base = cliobs.run_cli([name], cwd=d)
            ref = child_obs(base, name)
            if ref is None or ref[0] == "no_verdict" or base.traceback():
                sh.count("c16.reference_not_a_verdict_skipped")
                continue
            rows = list(itertools.product(*[range(len(x)) for x in DIMS])) if nfull > 0 and kind == "conf" else pairwise(r)
            if kind == "oneliner":
                rows = rows[:3]
            if nfull > 0 and kind == "conf":
                nfull -= 1
                sh.tally("runs", "full_product_files")
            for row in rows:
                opts = argv_of(row)
                run = cliobs.run_cli(opts + [name], cwd=d)
                sh.case(" ".join(opts) + "\0" + name + "\0" + src)
                sh.tally("runs", "option_sets")
                case = {"mode": "opts", "argv": opts, "name": name, "src": src}
                got = child_obs(run, name)
                detail = {"argv": opts, "kind": kind}
                if run.traceback() or run.timeout:
                    detail["stderr"] = run.stderr[-300:]
                    sh.violation("option_set_crashes", (" ".join(o for o in opts if o.startswith("-")),), case, detail)
                    continue
                if got is None or got[0] == "no_verdict":
                    sh.count("c16.pairs_skipped_no_verdict")
                    continue
                sh.count("c16.same_findings_under_every_option_set")
                if "CheckDefine" in opts:         # the exact word only: every other -R value changes nothing
                    want_ev = sorted((e[0], e[1], e[2], e[3]) for e in ref[2] if e[4] != "CheckPreprocessorDefine")
                    sh.count("c16.R_CheckDefine_removes_only_define_diagnostics")
                    removed = [e for e in ref[2] if e[4] == "CheckPreprocessorDefine"]
                    if removed:
                        sh.count("c16.R_CheckDefine_had_something_to_remove")
                    if got[1] != want_ev:
                        detail.update({"only_reference": [e for e in want_ev if e not in got[1]][:4],
                                       "only_with_option": [e for e in got[1] if e not in want_ev][:4]})
                        sh.violation("R_CheckDefine_difference", (kind.split(":")[0],), case, detail)
                    want_status = "OK" if all(e[1] == "Notice" for e in want_ev) else "Error"
                    if got[0] != want_status:
                        sh.violation("R_CheckDefine_status", (got[0],), case, detail)
                else:
                    if got[1] != ref[1] or got[0] != ref[0]:
                        detail.update({"only_reference": [e for e in ref[1] if e not in got[1]][:4],
                                       "only_with_option": [e for e in got[1] if e not in ref[1]][:4], "status": [ref[0], got[0]]})
                        sh.violation("option_changes_findings", tuple(o for o in opts if o.startswith("-")), case, detail)
                # printed report (no debug chatter): same as the child's own record
                if "-d" not in opts and "-dd" not in opts:
                    sh.count("c16.printed_report_matches")
                    try:
                        pf = (oracle.parse_json_report(run.stdout)[0] if "json" in opts else oracle.parse_humanized(run.stdout))
                        printed = sorted((x[0], x[1], x[2], x[3]) for x in pf[0]["diags"])
                        if printed != got[1] or pf[0]["status"] != got[0]:
                            detail["printed"] = printed[:4]
                            sh.violation("printed_differs_from_computed", tuple(o for o in opts if o.startswith("-")), case, detail)
                        shown = pf[0].get("path", pf[0]["name"]) if "json" in opts else pf[0]["name"]
                    except (oracle.ReportParseError, ValueError, IndexError, KeyError) as e:
                        detail["error"] = str(e)[:200]
                        sh.violation("unparsable_report", tuple(o for o in opts if o.startswith("-")), case, detail)
            # the file analysed after a same-named sibling in one run, under a random option set: same findings
            sib = None
            if name.endswith(".h") and kind == "conf":
                import re
                m = re.search(r"^# define (\w+_H)$", src, re.M)
                if m:
                    sib = (src.replace("# define " + m.group(1) + "\n", "", 1), src)      # (define-less variant, correct twin)
            elif kind.startswith("viol") or kind.startswith("define"):
                sib = (src, files[k - 1][1] if k and files[k - 1][0] == name else None)
            if sib and sib[1] is not None:
                os.makedirs(os.path.join(d, "a"), exist_ok=True)
                os.makedirs(os.path.join(d, "b"), exist_ok=True)
                with open(os.path.join(d, "a", name), "w", encoding="utf-8") as f:
                    f.write(sib[1])
                with open(os.path.join(d, "b", name), "w", encoding="utf-8") as f:
                    f.write(sib[0])
                row = r.choice(pairwise(r))
                opts = [o for o in argv_of(row) if True]
                if "CheckDefine" in opts or "-d" in opts or "-dd" in opts:
                    opts = ["--no-colors"]
                alone = cliobs.run_cli(opts + [os.path.join("b", name)], cwd=d)
                both = cliobs.run_cli(opts + [os.path.join("a", name), os.path.join("b", name)], cwd=d)
                sh.case("sibling\0" + name + "\0" + sib[0])
                sh.tally("runs", "after_same_name_sibling")
                sh.count("c16.same_findings_after_a_sibling_in_the_same_run")

                def last_obs(run):
                    fs = [f for f in (run.trace or {}).get("files", []) if f["path"].endswith(os.path.join("b", name))]
                    if not fs or fs[-1].get("state") != "done":
                        return None
                    return (fs[-1].get("status"), sorted((e[0], e[1], e[2], e[3]) for e in fs[-1].get("events") or []))
                oa, ob = last_obs(alone), last_obs(both)
                if oa is not None and ob is not None and oa != ob:
                    sh.violation("run_with_sibling_changes_findings", tuple(o for o in opts if o.startswith("-")),
                                 {"mode": "sibling", "name": name, "a": sib[1], "b": sib[0], "argv": opts},
                                 {"only_alone": [e for e in oa[1] if e not in ob[1]][:4], "only_with_sibling": [e for e in ob[1] if e not in oa[1]][:4],
                                  "status": [oa[0], ob[0]]})
            # inline content vs the same content on disk (also content that does not end in a newline)
            flag = "--cfile" if name.endswith(".c") else "--hfile"
            full_src = src
            variants = [(True, full_src), (False, full_src), (True, full_src.rstrip("\n")), (True, full_src + "\n")]
            # content a text-mode read could treat differently from a command-line string: byte order mark, characters
            # outside ASCII, control characters (line ends stay \n: a text-mode read of \r\n is documented to translate)
            hv = [(True, "\ufeff" + full_src), (True, full_src + "/* caf\u00e9 \u20ac \U0001f600 */\n"),
                  (True, full_src + "/* page\fbreak \x0b \x85 \u2028 */\n"), (True, "\ufeff\n" + full_src),
                  (True, full_src.replace("\n", "\n// \u00e9\u00e8\n", 1))]
            variants.append(hv[k % len(hv)])
            if spec.get("full", 0) > 1:
                variants += [v for v in hv if v is not variants[-1]]
            on_disk = full_src
            for with_name, src in variants:
                if src != on_disk:
                    # (compare with what the file holds now: a variant that leaves this text unchanged must not be
                    # judged against the previous variant's file)
                    with open(os.path.join(d, name), "w", encoding="utf-8") as f:
                        f.write(src)
                    on_disk = src
                    ref = child_obs(cliobs.run_cli([name], cwd=d), name)
                    if ref is None:
                        continue
                inl_name = name if with_name else ("file.c" if flag == "--cfile" else "file.h")
                if not with_name:
                    # the on-disk twin must carry the default name (header guard / 42 header follow the name)
                    with open(os.path.join(d, inl_name), "w", encoding="utf-8") as f:
                        f.write(src)
                    twin = child_obs(cliobs.run_cli([inl_name], cwd=d), inl_name)
                else:
                    twin = ref
                argv = [flag + "=" + src] + (["--filename", name] if with_name else [])
                run = cliobs.run_cli(argv, cwd=d)
                sh.case("inline\0%s\0" % with_name + name + "\0" + src)
                sh.tally("runs", "inline")
                got = child_obs(run, inl_name)
                case = {"mode": "inline", "flag": flag, "name": name, "src": src, "with_name": with_name}
                sh.count("c16.inline_equals_on_disk")
                if run.traceback() or got is None or twin is None:
                    sh.violation("inline_failed", (flag, str(with_name)), case, {"stderr": run.stderr[-300:]})
                    continue
                if got[:2] != twin[:2]:
                    sh.violation("inline_differs_from_file", (flag, str(with_name)), case,
                                 {"only_file": [e for e in (twin[1] or []) if e not in (got[1] or [])][:4],
                                  "only_inline": [e for e in (got[1] or []) if e not in (twin[1] or [])][:4], "status": [twin[0], got[0]]})
                sh.count("c16.inline_opens_no_source_file")
                opens = [x for x in run.trace.get("io", []) if x[0] == "open" and not str(x[1]).endswith(".json")
                         and not str(x[1]).startswith(("/dev/", "/proc/", "/sys/"))]
                if opens:
                    sh.violation("inline_opens_files", (flag,), case, {"opened": opens[:4]})
            shutil.rmtree(d, ignore_errors=True)
        sh.sample({"file": files[0][0] if files else None, "option_rows": [argv_of(x) for x in pairwise(random.Random(1))[:4]]}, cap=1)
    finally:
        shutil.rmtree(tmp, ignore_errors=True)
    return sh.result()


def replay(case, sh):
    tmp = tempfile.mkdtemp(prefix="nv_c16r_")
    try:
        if case["mode"] == "sibling":
            name = case["name"]
            for sub, txt in (("a", case["a"]), ("b", case["b"])):
                os.makedirs(os.path.join(tmp, sub), exist_ok=True)
                with open(os.path.join(tmp, sub, name), "w", encoding="utf-8") as f:
                    f.write(txt)
            alone = cliobs.run_cli(case["argv"] + [os.path.join("b", name)], cwd=tmp)
            both = cliobs.run_cli(case["argv"] + [os.path.join("a", name), os.path.join("b", name)], cwd=tmp)
            sh.evaluations += 1

            def lo(run):
                fs = [f for f in (run.trace or {}).get("files", []) if f["path"].endswith(os.path.join("b", name))]
                return (fs[-1].get("status"), sorted((e[0], e[1], e[2], e[3]) for e in fs[-1].get("events") or [])) if fs else None
            if lo(alone) != lo(both):
                sh.violation("run_with_sibling_changes_findings", ("replay",), case, {})
            return
        name, src = case["name"], case["src"]
        with open(os.path.join(tmp, name), "w", encoding="utf-8") as f:
            f.write(src)
        ref = child_obs(cliobs.run_cli([name], cwd=tmp), name)
        sh.evaluations += 1
        if case["mode"] == "inline":
            argv = [case["flag"] + "=" + src] + (["--filename", name] if case["with_name"] else [])
            inl = name if case["with_name"] else ("file.c" if case["flag"] == "--cfile" else "file.h")
            if not case["with_name"]:
                with open(os.path.join(tmp, inl), "w", encoding="utf-8") as f:
                    f.write(src)
                ref = child_obs(cliobs.run_cli([inl], cwd=tmp), inl)
            got = child_obs(cliobs.run_cli(argv, cwd=tmp), inl)
            if got is None or ref is None or got[:2] != ref[:2]:
                sh.violation("inline_differs_from_file", ("replay",), case, {})
            return
        got = child_obs(cliobs.run_cli(case["argv"] + [name], cwd=tmp), name)
        if ref is None or got is None:
            sh.violation("option_set_crashes", ("replay",), case, {})
            return
        if "CheckDefine" in case["argv"]:
            want = sorted((e[0], e[1], e[2], e[3]) for e in ref[2] if e[4] != "CheckPreprocessorDefine")
            if got[1] != want:
                sh.violation("R_CheckDefine_difference", ("replay",), case, {})
        elif got[0] != "no_verdict" and got[:2] != ref[:2]:
            sh.violation("option_changes_findings", ("replay",), case, {})
    finally:
        shutil.rmtree(tmp, ignore_errors=True)


def finish(merged, tier, seed):
    a = merged["asserts"]
    inc = []
    for k, floor in (("c16.same_findings_under_every_option_set", 400), ("c16.inline_equals_on_disk", 100),
                     ("c16.R_CheckDefine_had_something_to_remove", 10)):
        if a.get(k, 0) < floor:
            inc.append("%s evaluated only %d times" % (k, a.get(k, 0)))
    return {"inconclusive": inc, "coverage": {"runs": merged["cov"].get("runs"), "option_dimensions": [len(d) for d in DIMS]},
            "summary": ["runs %s" % merged["cov"].get("runs")]}
