"""C06 - the verdict is a pure function of the file (DESIGN §4.6).

Reference: the observation of a file analysed ALONE in a fresh process.
Monitored histories, in one process sharing the Registry and every
module-level object (as `norminette a.c b.c ...` and editor integrations do):
the file twice in a row, after each predecessor class, after random histories
of length 2..12, interleaved with another file.  Oracle: the observation is
identical to the reference in every history.  M-STATE snapshots process-global
state at file boundaries (reported, and used to direct amplifier files).
Separately: subprocesses in which the listing of norminette/rules is permuted
before import must give identical rule order, dependency lists and observations.
"""
import json
import os
import random
import subprocess
import sys

from nv import core, pipework
from nv.run import Shard, PY, ROOT, env_for_worker

ID = "C06"
LEVEL = "exploration"
RULE = ("targets: generated conforming files, one-violation variants, fatal files, both file types, and amplifier files "
        "sensitive to leaked process state (150 bad lexemes, 150 nested parentheses, 150 nested unbraced ifs, #if "
        "expressions, long block comments, files ending inside a scope); histories as described; plus permutations of "
        "the rules directory listing in fresh subprocesses. Non-trivial = the history has >= 1 predecessor; distinct = "
        "distinct (history, target)")
ASSUMPTIONS = ["the reference observation is taken in a fresh interpreter that analyses only that file",
               "the harness swallows exceptions between files as an editor integration would"]
WORKER_TIMEOUT = {"quick": 900, "thorough": 3600}


def plan(tier, seed):
    q = tier == "quick"
    specs = [{"mode": "histories", "seed": seed, "shard": i, "n": 10 if q else 60, "tier": tier} for i in range(14 if q else 40)]
    specs += [{"mode": "perm", "seed": seed, "shard": i, "perms": 15 if q else 75} for i in range(2 if q else 4)]
    specs += [{"mode": "cliopts", "seed": seed, "shard": i} for i in range(2 if q else 8)]
    return specs


# ------------------------------------------------------------------ file pool

def amplifiers():
    n = 150
    out = []
    out.append(("amp_badlex.c", "int\tf(void)\n{\n\treturn (0);\n}\n" + "@" * n + "\n"))
    out.append(("amp_parens.c", "int\tf(int a)\n{\n\treturn (" + "(" * n + "a" + ")" * n + ");\n}\n"))
    body = "".join("\t" * (k + 1) + "if (a)\n" for k in range(n))
    out.append(("amp_ifs.c", "int\tf(int a)\n{\n" + body + "\t" * (n + 1) + "a = 1;\n\treturn (a);\n}\n"))
    out.append(("amp_if_expr.c", "#if " + "(" * 30 + "1" + ")" * 30 + " && defined(X) || (A + B * 3 > 2)\n# define Y 1\n#endif\n\nint\tf(void)\n{\n\treturn (0);\n}\n"))
    out.append(("amp_if_bad.c", "#if (1 + \nint\tf(void)\n{\n\treturn (0);\n}\n"))
    out.append(("amp_if_deep.c", "#if " + "(" * 120 + "1" + ")" * 120 + "\n#endif\n"))
    out.append(("amp_comment.c", "/*\n** " + "x" * 90 + "\n*/\n\nint\tf(void)\n{\n\treturn (0); /* " + "y" * 80 + " */\n}\n"))
    out.append(("amp_open_func.c", "int\tf(void)\n{\n\tif (1)\n\t{\n\t\treturn (0);\n"))
    out.append(("amp_open_struct.h", "#ifndef AMP_OPEN_STRUCT_H\n# define AMP_OPEN_STRUCT_H\n\ntypedef struct s_a\n{\n\tint\ta;\n"))
    out.append(("amp_open_enum.h", "typedef enum e_a\n{\n\tA,\n"))
    out.append(("amp_many_funcs.c", "".join("int\tf%d(void)\n{\n\treturn (0);\n}\n\n" % k for k in range(7))))
    out.append(("amp_vars.c", "int\tf(void)\n{\n" + "".join("\tint\tv%d;\n" % k for k in range(7)) + "\n\treturn (0);\n}\n"))
    return out


FATALS = [("fat1.c", "#foo bar\nint\tmain(void)\n{\n\treturn (0);\n}\n"),
          ("fat2.c", "int\tmain(void\n{\n\treturn (0);\n}\n"),
          ("fat3.h", "#if (1 +\n# define X\n#endif\n"),
          ("fat4.c", "int\tmain(void)\n{\n\t= = =\n}\n")]


def pool(spec):
    rng = random.Random("c06/%s/%d" % (spec["seed"], spec["shard"]))
    files = {"conf": [], "viol": [], "fatal": list(FATALS), "amp": amplifiers(), "h": []}
    siblings = []      # (file, sibling with the same name and other content)
    for p, tag in pipework.base_programs({"seed": spec["seed"], "shard": 300 + spec["shard"], "n": spec["n"]}):
        (files["h"] if p.ftype == "h" else files["conf"]).append((p.name, p.text()))
        for q, o, _ in pipework.sampled_variants(p, rng, 2):
            files["viol"].append((q.name, q.text()))
            siblings.append(((p.name, p.text()), (q.name, q.text())))
        # same name, same line numbers, one of them with a too-long line / a changed guard: anything the tool
        # remembers per file *name* (or per macro, per line number) across files becomes observable
        for q, o, _ in pipework.variants(p, rng, per_op=1, ops=[x for x in pipework.viol.OPS if x["id"] in ("V71a", "V43", "V01")]):
            siblings.append(((p.name, p.text()), (q.name, q.text())))
        if p.ftype == "h":
            from nv.checks import c14
            for vname, q, expect in c14.variants(p, p.meta["guard"], rng):
                if vname in ("define_removed", "other_symbol", "lower_case", "second_guard"):
                    siblings.append(((p.name, p.text()), (q.name, q.text())))
                    # and the guard symbol defined by a file of another name
                    siblings.append((("other.c", "#define %s 1\n" % p.meta["guard"]), (q.name, q.text())))
    # declaration-shaped statements in random order (G-DECL): as predecessors and as targets
    from nv.gen import decls
    files["decl"] = [decls.source(rng) for _ in range(8)]
    files["siblings"] = siblings
    return files, rng


def reference(files):
    """observations of each file analysed alone in a fresh process"""
    refs = []
    for name, src in files:
        p = subprocess.run([PY, "-m", "nv.obsone"], input=json.dumps({"files": [[name, src]]}).encode(),
                           env=env_for_worker(), cwd=ROOT, stdout=subprocess.PIPE, stderr=subprocess.PIPE, timeout=300)
        if p.returncode != 0:
            refs.append(None)
        else:
            refs.append(json.loads(p.stdout)[0])
    return refs


# ------------------------------------------------------------------ M-STATE

def snapshot():
    import norminette
    from norminette.registry import rules
    snap = {"recursion_limit": sys.getrecursionlimit(),
            "primaries": [r.__name__ for r in rules.primaries],
            "dependencies": {k: [c.__name__ for c in v] for k, v in core.registry().dependencies.items()}}
    mods = {}
    for mname, mod in list(sys.modules.items()):
        if not mname.startswith("norminette") or mod is None:
            continue
        for k, v in vars(mod).items():
            if k.startswith("__"):
                continue
            if isinstance(v, (list, dict, set, tuple)) and not k.isupper() or isinstance(v, (list, dict, set)):
                try:
                    mods[mname + "." + k] = hash(repr(v)) if len(repr(v)) < 200000 else len(repr(v))
                except Exception:
                    pass
    snap["module_state"] = mods
    from norminette.rules import Rule
    attrs = {}
    for cls in Rule.__subclasses__():
        for k, v in vars(cls).items():
            if k in ("context", "name") or k.startswith("__") or callable(v) or isinstance(v, (classmethod, staticmethod, property)):
                continue
            attrs[cls.__name__ + "." + k] = repr(v)[:200]
    snap["rule_class_attrs"] = attrs
    # mutable default arguments and mutable class attributes anywhere in the package
    import inspect
    defaults = {}
    cattrs = {}
    for mname, mod in list(sys.modules.items()):
        if not mname.startswith("norminette") or mod is None:
            continue
        for cname, cls in list(vars(mod).items()):
            objs = []
            if inspect.isfunction(cls) and cls.__module__ == mname:
                objs.append((cname, cls))
            elif inspect.isclass(cls) and cls.__module__ == mname:
                for k, v in list(vars(cls).items()):
                    f = v.__func__ if isinstance(v, (classmethod, staticmethod)) else v
                    if inspect.isfunction(f):
                        objs.append((cname + "." + k, f))
                    elif isinstance(v, (list, dict, set)) and not k.startswith("__"):
                        cattrs[mname + "." + cname + "." + k] = repr(v)[:300]
            for oname, f in objs:
                for d in (f.__defaults__ or ()) + tuple((f.__kwdefaults__ or {}).values()):
                    if isinstance(d, (list, dict, set)):
                        defaults[mname + "." + oname] = repr(d)[:300]
    snap["mutable_defaults"] = defaults
    snap["class_level_containers"] = cattrs
    return snap


def snap_diff(a, b):
    out = []
    for k in a:
        if a[k] != b[k]:
            if isinstance(a[k], dict):
                for kk in set(a[k]) | set(b[k]):
                    if a[k].get(kk) != b[k].get(kk):
                        out.append("%s.%s" % (k, kk))
            else:
                out.append("%s: %r -> %r" % (k, a[k], b[k]))
    return out


# ------------------------------------------------------------------ histories

def obs_now(name, src):
    from nv.obsone import _obs
    r = core.api_run(name, src, clock=False, keep_limit=True)
    return _obs(r)


def run_histories(spec):
    sh = Shard(max_per_sig=3)
    files, rng = pool(spec)
    opened = []

    def audit(event, args):
        if event == "open" and ACTIVE[0]:
            p = args[0]
            if isinstance(p, str) and not p.endswith((".py", ".pyc")) and "/norminette/" not in p and "/nv/" not in p:
                opened.append(p)
    ACTIVE = [False]
    sys.addaudithook(audit)
    targets = files["conf"][:4] + files["h"][:2] + files["viol"][:6] + files["decl"][:3]
    if spec["shard"] % 4 == 0 or spec["tier"] == "thorough":
        # the fixed files are the same in every shard: a few shards take them as targets (with their own histories)
        targets += files["fatal"] + files["amp"]
    refs = reference(targets)
    siblings = files.pop("siblings")
    allfiles = [f for k in files for f in files[k]]
    classes = {k: files[k] for k in files}
    base_snap = snapshot()
    for (name, src), ref in zip(targets, refs):
        if ref is None:
            sh.inconclusive.append("no reference observation for %s" % name)
            continue

        def check(history, label):
            before = snapshot() if label in ("after_class:fatal", "after_class:amp") else None
            for hn, hs in history:
                ACTIVE[0] = True
                try:
                    obs_now(hn, hs)
                finally:
                    ACTIVE[0] = False
            ACTIVE[0] = True
            try:
                got = obs_now(name, src)
            finally:
                ACTIVE[0] = False
            sh.case(label + "\0" + "\0".join(h[0] + h[1] for h in history) + "\0" + name + src, nontrivial=len(history) > 0)
            sh.count("c06.observation_equals_reference")
            sh.tally("histories", label.split(":")[0])
            if got != ref:
                d = {"label": label, "target": name, "history": [h[0] for h in history],
                     "reference": ref[:2] + [(ref[2] or [])[:3]], "got": got[:2] + [(got[2] or [])[:3]],
                     "recursion_limit": sys.getrecursionlimit()}
                sh.violation("history_changes_observation", (label.split(":")[0], name.split(".")[0][:12], str(got[0]), str(ref[0])),
                             {"mode": "history", "history": history, "target": [name, src], "reference": ref}, d)
        check([], "alone_in_shared_process")
        check([(name, src)], "twice")
        for cls, fl in classes.items():
            for f in (fl[:2] if spec["tier"] == "quick" else fl[:4]):
                check([f], "after_class:" + cls)
        for _ in range(3 if spec["tier"] == "quick" else 12):
            check([rng.choice(allfiles) for _ in range(rng.randint(2, 12 if spec["tier"] == "thorough" else 8))], "random_history")
        u = rng.choice(allfiles)
        check([(name, src), u], "interleaved")
    # a file close to an internal limit (nesting depth of a constant expression) after files that died half-way
    # through the same machinery, once and several times: whatever they left behind adds up
    if spec["shard"] % 4 == 1 or spec["tier"] == "thorough":
        opens = [("open%d.c" % k, "#if " + "(" * k + "1\n# define X 1\n#endif\n") for k in (30, 50)] + \
                [("open_fn.c", "int\tf(void)\n{\n\treturn (" + "(" * 40 + "1);\n}\n"), ("open_br.c", "int\tg_a[] = {" + "{" * 40 + "1};\n")]
        nests = [("nest%d.c" % d, "#if " + "(" * d + "1" + ")" * d + "\n# define Y 1\n#endif\n") for d in (40, 55, 70)] + \
                [("nest_fn.c", "int\tf(int a)\n{\n\treturn (" + "(" * 60 + "a" + ")" * 60 + ");\n}\n")]
        nrefs = reference(nests)
        for (name, src), ref in zip(nests, nrefs):
            if ref is None:
                sh.inconclusive.append("no reference observation for %s" % name)
                continue
            for o in opens:
                for reps in (1, 2, 3, 5):
                    check([o] * reps, "after_repeated_fatal:%s" % o[0])
            check([opens[0], opens[1], opens[0], opens[2]], "after_repeated_fatal:mixed")
    # files on either side of an internal limit, each history in a process of its own (same call depth as the
    # reference): a refusal - or an acceptance - must not depend on what the process refused before
    if spec["shard"] % 4 == 3 or spec["tier"] == "thorough":
        deep = ("deep.c", "#if " + "(" * 120 + "1" + ")" * 120 + "\n# define Y 1\n#endif\n")
        chain = ("chain.c", "#if " + " + ".join(["1"] * 90) + "\n# define Y 1\n#endif\n")

        def in_fresh_process(flist):
            p = subprocess.run([PY, "-m", "nv.obsone"], input=json.dumps({"files": [list(f) for f in flist], "alone": False}).encode(),
                               env=env_for_worker(), cwd=ROOT, stdout=subprocess.PIPE, stderr=subprocess.PIPE, timeout=300)
            return json.loads(p.stdout) if p.returncode == 0 else None
        for dpt in range(74, 96, 2):
            tgt = ("edge%d.c" % dpt, "#if " + "(" * dpt + "1" + ")" * dpt + "\n# define Y 1\n#endif\n")
            alone = in_fresh_process([tgt])
            if not alone:
                sh.inconclusive.append("no reference observation for %s" % tgt[0])
                continue
            for hist, label in (([tgt], "twice"), ([deep], "after_refused"), ([deep, deep, deep], "after_refused_x3"), ([chain, deep], "after_refused_mixed")):
                out = in_fresh_process(hist + [tgt])
                sh.case("edge\0%d\0%s" % (dpt, label))
                sh.count("c06.observation_equals_reference")
                sh.tally("histories", "near_limit_after_refusals")
                if out is None or out[-1] != alone[0]:
                    sh.violation("history_changes_observation", ("near_limit", label, str((out or [[None]])[-1][0]), str(alone[0][0])),
                                 {"mode": "fresh_history", "history": [list(h) for h in hist], "target": list(tgt)},
                                 {"label": label, "depth": dpt, "reference": alone[0][:2], "got": (out or [[None, None]])[-1][:2]})
    # sibling pairs: each one analysed right after the other, both ways
    if spec["tier"] == "thorough":
        sib = siblings
    else:
        hs = [x for x in siblings if x[1][0].endswith(".h")]
        cs = [x for x in siblings if not x[1][0].endswith(".h")]
        sib = hs[:12] + cs[:10]
    flat = [f for pair in sib for f in pair]
    uniq = []
    for f in flat:
        if f not in uniq:
            uniq.append(f)
    srefs = dict(zip([u[0] + "\0" + u[1] for u in uniq], reference(uniq)))
    for a, b in sib:
        for first, second in ((a, b), (b, a)):
            ref = srefs.get(second[0] + "\0" + second[1])
            if ref is None:
                continue
            ACTIVE[0] = True
            try:
                obs_now(first[0], first[1])
                got = obs_now(second[0], second[1])
            finally:
                ACTIVE[0] = False
            sh.case("sibling\0" + first[1] + "\0" + second[1], nontrivial=True)
            sh.count("c06.observation_equals_reference")
            sh.tally("histories", "after_same_name_sibling")
            if got != ref:
                d = {"label": "after_same_name_sibling", "target": second[0], "history": [first[0]],
                     "reference": ref[:2] + [(ref[2] or [])[:3]], "got": got[:2] + [(got[2] or [])[:3]],
                     "only_reference": [x for x in (ref[2] or []) if x not in (got[2] or [])][:3],
                     "only_got": [x for x in (got[2] or []) if x not in (ref[2] or [])][:3]}
                sh.violation("history_changes_observation", ("sibling", second[0][-2:], str(got[0]), str(ref[0])),
                             {"mode": "history", "history": [list(first)], "target": list(second), "reference": ref}, d)
    end_snap = snapshot()
    leaks = snap_diff(base_snap, end_snap)
    for l in leaks:
        sh.tally("state_leaks", l[:120])
    sh.count("c06.no_file_opened_by_analysis")
    if opened:
        sh.violation("analysis_opens_files", (os.path.basename(opened[0]),), {"mode": "io"}, {"opened": opened[:5]})
    sh.sample({"target": targets[0][0], "histories": "alone, twice, after each class, random 2-12, interleaved"}, cap=1)
    return sh


# ------------------------------------------------------------------ rule listing permutations

def run_perms(spec):
    sh = Shard()
    files = []
    rng = random.Random("c06p/%s" % spec["seed"])
    for p, tag in pipework.base_programs({"seed": spec["seed"], "shard": 900, "n": 18}):
        files.append([p.name, p.text()])
        for q, o, _ in pipework.sampled_variants(p, rng, 2):
            files.append([q.name, q.text()])
    files = files[:50] + [list(f) for f in FATALS[:2]]
    # every keyword of the lexer's table as an argument, as a right side and as a statement: what a rule's word list
    # holds at the time its module is imported shows on these
    try:
        from norminette.lexer.dictionary import keywords as _kw
        words = sorted(_kw)
    except Exception:
        words = ["inline", "restrict", "register", "volatile", "const", "static", "sizeof", "typedef"]
    for w in words:
        files.append(["kw_%s.c" % w, "int\tf(int x)\n{\n\tfoo(%s, 1);\n\tx = %s;\n\treturn (x);\n}\n" % (w, w)])
        files.append(["kw2_%s.c" % w, "int\tf(int x)\n{\n\tx = foo(x, %s) + %s(x);\n\treturn (x);\n}\n" % (w, w)])
    req = json.dumps({"files": files}).encode()
    ref = None
    for k in range(spec["perms"]):
        seed = "sorted" if (k == 0 and spec["shard"] == 0) else "perm/%s/%d/%d" % (spec["seed"], spec["shard"], k)
        p = subprocess.run([PY, "-m", "nv.permrun", seed], input=req, env=env_for_worker(), cwd=ROOT,
                           stdout=subprocess.PIPE, stderr=subprocess.PIPE, timeout=600)
        sh.case("perm\0" + seed)
        if p.returncode != 0:
            sh.violation("permuted_listing_crashes", (seed.split("/")[0],), {"mode": "perm", "seed": seed, "files": files},
                         {"stderr": p.stderr.decode()[-400:]})
            continue
        out = json.loads(p.stdout)
        if ref is None:
            ref = out
            # the reference of every shard is the sorted listing
            p0 = subprocess.run([PY, "-m", "nv.permrun", "sorted"], input=req, env=env_for_worker(), cwd=ROOT,
                                stdout=subprocess.PIPE, stderr=subprocess.PIPE, timeout=600)
            ref = json.loads(p0.stdout)
        sh.count("c06.listing_order_does_not_matter")
        sh.tally("histories", "listing_permutation")
        for part in ("primaries", "dependencies", "obs"):
            if out[part] != ref[part]:
                d = {"part": part, "seed": seed}
                if part == "primaries":
                    d["diff"] = [(a, b) for a, b in zip(ref[part], out[part]) if a != b][:4]
                elif part == "obs":
                    k2 = next(i for i, (a, b) in enumerate(zip(ref[part], out[part])) if a != b)
                    d["file"] = files[k2][0]
                    d["reference"] = ref[part][k2][:2]
                    d["got"] = out[part][k2][:2]
                sh.violation("listing_order_matters", (part,), {"mode": "perm", "seed": seed, "files": files}, d)
    sh.sample({"permutations": spec["perms"], "files_per_permutation": len(files)})
    return sh


def run_cli_options(spec):
    """several files in one run of the real command line under an option set: every file's observation (recorded inside
    the child) must equal its observation when it is the only file of a run with the same options"""
    import shutil
    import tempfile
    from nv import cliobs
    sh = Shard()
    rng = random.Random("c06cli/%s/%d" % (spec["seed"], spec["shard"]))
    tmp = tempfile.mkdtemp(prefix="nv_c06_")
    try:
        files = []
        for k, (p, tag) in enumerate(pipework.base_programs({"seed": spec["seed"], "shard": 1500 + spec["shard"], "n": 6})):
            name = "f%d.%s" % (k, p.ftype)
            src = p.text() if p.ftype == "c" else conf_rename_guard(p, name)
            files.append((name, src))
            for q, o, _ in pipework.variants(p, rng, per_op=1, ops=[x for x in pipework.viol.OPS if x["id"] in ("V43", "V61", "V60")]):
                vname = "v%d.%s" % (k, p.ftype)
                files.append((vname, q.text() if p.ftype == "c" else conf_rename_guard(q, vname)))
                break
        for name, src in files:
            with open(os.path.join(tmp, name), "w") as f:
                f.write(src)
        names = [n for n, _ in files]
        for opts in (["-R", "CheckDefine"], ["-R", "x"], ["-d"], ["-f", "json"], ["--no-colors", "-o"], []):
            alone = {}
            for n in names:
                run = cliobs.run_cli(opts + [n], cwd=tmp)
                alone[n] = _child_obs(run, n)
            for rep in range(2):
                order = names[:]
                rng.shuffle(order)
                order = order[:rng.randint(2, len(order))]
                run = cliobs.run_cli(opts + order, cwd=tmp)
                sh.case("cliopts\0" + " ".join(opts) + "\0" + " ".join(order))
                sh.tally("histories", "cli_run_with_options")
                for n in order:
                    got = _child_obs(run, n)
                    if got is None or alone[n] is None:
                        continue        # a fatal file ends the run (C04's finding F-16b)
                    sh.count("c06.observation_equals_reference")
                    sh.count("c06.same_under_options_in_a_multi_file_run")
                    if got != alone[n]:
                        sh.violation("multi_file_run_changes_observation", (" ".join(o for o in opts if o.startswith("-")),),
                                     {"mode": "cliopts", "opts": opts, "order": order, "files": dict(files), "target": n},
                                     {"options": opts, "order": order, "target": n,
                                      "only_alone": [e for e in alone[n][1] if e not in got[1]][:4],
                                      "only_in_run": [e for e in got[1] if e not in alone[n][1]][:4]})
        sh.sample({"options": ["-R", "CheckDefine"], "argv_files": names[:4]})
    finally:
        shutil.rmtree(tmp, ignore_errors=True)
    return sh


def conf_rename_guard(p, name):
    g0 = p.meta.get("guard")
    src = p.text()
    return src.replace(g0, name.upper().replace(".", "_")) if g0 else src


def _child_obs(run, basename):
    if run.trace is None:
        return None
    for f in run.trace.get("files", []):
        if f["basename"] == basename:
            if f.get("state") != "done":
                return None
            return (f.get("status"), sorted((e[0], e[1], e[2], e[3]) for e in f.get("events") or []))
    return None


def run_shard(spec):
    if spec["mode"] == "perm":
        return run_perms(spec).result()
    if spec["mode"] == "cliopts":
        return run_cli_options(spec).result()
    return run_histories(spec).result()


def replay(case, sh):
    sh.evaluations += 1
    if case["mode"] == "history":
        for hn, hs in case["history"]:
            obs_now(hn, hs)
        got = obs_now(case["target"][0], case["target"][1])
        if got != case["reference"]:
            sh.violation("history_changes_observation", ("replay",), case, {"got": got[:2], "reference": case["reference"][:2]})
    elif case["mode"] == "fresh_history":
        def fresh(flist):
            p = subprocess.run([PY, "-m", "nv.obsone"], input=json.dumps({"files": flist, "alone": False}).encode(),
                               env=env_for_worker(), cwd=ROOT, stdout=subprocess.PIPE, stderr=subprocess.PIPE, timeout=300)
            return json.loads(p.stdout) if p.returncode == 0 else None
        a = fresh([case["target"]])
        b = fresh(case["history"] + [case["target"]])
        if a is None or b is None or a[0] != b[-1]:
            sh.violation("history_changes_observation", ("replay",), case, {})
    elif case["mode"] == "cliopts":
        import shutil
        import tempfile
        from nv import cliobs
        tmp = tempfile.mkdtemp(prefix="nv_c06r_")
        try:
            for n, t in case["files"].items():
                with open(os.path.join(tmp, n), "w") as f:
                    f.write(t)
            a = _child_obs(cliobs.run_cli(case["opts"] + [case["target"]], cwd=tmp), case["target"])
            b = _child_obs(cliobs.run_cli(case["opts"] + case["order"], cwd=tmp), case["target"])
            if a is not None and b is not None and a != b:
                sh.violation("multi_file_run_changes_observation", ("replay",), case, {})
        finally:
            shutil.rmtree(tmp, ignore_errors=True)
    elif case["mode"] == "perm":
        req = json.dumps({"files": case["files"]}).encode()
        outs = []
        for seed in ("sorted", case["seed"]):
            p = subprocess.run([PY, "-m", "nv.permrun", seed], input=req, env=env_for_worker(), cwd=ROOT,
                               stdout=subprocess.PIPE, stderr=subprocess.PIPE, timeout=600)
            outs.append(json.loads(p.stdout) if p.returncode == 0 else None)
        if outs[0] != outs[1]:
            sh.violation("listing_order_matters", ("replay",), case, {})


def finish(merged, tier, seed):
    a = merged["asserts"]
    inc = []
    if a.get("c06.observation_equals_reference", 0) < 1500:
        inc.append("only %d history comparisons" % a.get("c06.observation_equals_reference", 0))
    if a.get("c06.listing_order_does_not_matter", 0) < 20:
        inc.append("only %d listing permutations" % a.get("c06.listing_order_does_not_matter", 0))
    return {"inconclusive": inc,
            "coverage": {"histories": merged["cov"].get("histories"),
                         "state_leaks_observed_not_judged": merged["cov"].get("state_leaks", {})},
            "summary": ["histories %s; state leaks seen by M-STATE (informational): %s" % (
                merged["cov"].get("histories"), list(merged["cov"].get("state_leaks", {}))[:6])]}
