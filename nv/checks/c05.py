"""C05 - every input gets an answer: no hang, no internal error (DESIGN §4.5).

Deciding monitors: M-STEP (logical clock = function entries + loop back-edges
inside norminette/*; exceeding the budget B(n) = 2e6 + 15000 n is a hang,
confirmed by re-running the case alone) and exception observation at three
boundaries: Lexer.get_next_token (anything is a violation), Registry.run
(only CParsingError is a controlled outcome), and the CLI process (traceback
on stderr or exit status outside {0, 1} is a violation).
"""
import os
import random
import shutil
import tempfile

from nv import core, lexpass, mon, pipework, cliobs
from nv.gen import lex as glex
from nv.run import Shard

ID = "C05"
LEVEL = "exploration"
RULE = ("lexer: all products over the 25-symbol alphabet up to the tier's bound + sampled longer ones + lexeme soups "
        "+ long runs of unmatched/half-open lexemes; pipeline: generated conforming files, one-violation variants, "
        "their prefixes at token boundaries and bounded token edits (delete/duplicate/replace/swap), both file types; "
        "CLI: files with NUL, CR, CRLF, BOM, UTF-8 and invalid UTF-8 bytes. Non-trivial = the lexer produced a token "
        "or a diagnostic; distinct = distinct (file name, text)")
ASSUMPTIONS = ["step budget B(n)=2e6+15000n is >= 60x the largest steps/char ratio calibrated on this tree",
               "sys.monitoring PY_START/JUMP semantics of CPython 3.12"]
WORKER_TIMEOUT = {"quick": 900, "thorough": 7200}


def plan(tier, seed):
    q = tier == "quick"
    n = 16
    specs = []
    maxlen = 4 if q else 5
    k = n if q else 48
    specs += [{"mode": "product", "alpha": "total", "maxlen": maxlen, "shard": i, "nshards": k} for i in range(k)]
    specs += [{"mode": "product_sample", "alpha": "total", "len": L, "seed": seed, "shard": i,
               "n": 6000 if q else 150000} for i, L in enumerate([5, 6, 6, 7, 8, 10, 12, 16])]
    specs += [{"mode": "soup", "seed": seed, "shard": i, "n": 1500 if q else 30000} for i in range(8)]
    specs += [{"mode": "runs", "shard": i, "nshards": 8} for i in range(8)]
    # containers (comments, literals with every prefix, directive bodies; closed and left open) x payload sequences
    specs += [{"mode": "grammar", "seed": seed, "shard": i, "nshards": 8, "maxlen": 2 if tier == "quick" else 3,
               "sample": 1500 if tier == "quick" else 40000} for i in range(8)]
    specs += pipework.plan_programs(tier, seed, "C05", nshards=16 if q else 48, per_shard=8 if q else 120)
    specs += [{"mode": "cli", "seed": seed, "shard": i, "n": 10 if q else 120} for i in range(4)]
    specs += [{"mode": "tokseq", "seed": seed, "shard": i, "nshards": 8, "maxlen": 2 if q else 3,
               "sample": 900 if q else 20000} for i in range(8)]
    specs += [{"mode": "directives", "shard": i, "nshards": 4} for i in range(4)]
    specs += [{"mode": "deep", "tier": tier}]
    # files made of declaration-shaped statements (G-DECL)
    specs += [{"mode": "decls", "seed": seed, "shard": i, "n": 1200 if q else 40000} for i in range(16)]
    return specs


# ------------------------------------------------------------------ systematic small grammars

TOKS = ["int", "a", "1", "\"s\"", "'c'", "(", ")", "{", "}", "[", "]", ";", ",", "=", "+", "*", "->", ".", ":", "?", "#",
        "include", "define", "if", "while", "return", "struct", "typedef", "<", ">", "\n", "else", "sizeof", "static"]
DIRECTIVES = ["include", "import", "define", "undef", "if", "ifdef", "ifndef", "elif", "else", "endif", "pragma", "error",
              "warning", "line", "foo", ""]
DIR_ARGS = ["", "A -", "A +", "A ~", "A -1", "A (", "A 1 +", "A !", "A *", "A ++", "A \"s", "A 's", "A(x) -", "NAME", "name", "NULL", "int", "inline", "if", "sizeof", "return", "42", "\"file.h\"", "<file.h>", "<file.h", "file.h>", "\"file.h", "(", ")", "(1 +", "1 +", "+",
            "defined", "defined(", "defined(X)", "!defined X", "X Y", "X(a, b) a", "X(", "X(a", "X ##", "\\", "// c", "/* c",
            "NAME NAME NAME", "1 ? 2 : 3", "1 ? 2", "(((((1)))))", "0x", "'", "\"", "@"]
DIR_PROLOGUE = ["#define NAME \"file.h\"\n#define A 1\n#define X(a, b) a\n#define name 2\n", "#define NAME <file.h>\n#define A\n#define X 3\n",
                "#define NAME 1\n#define A(x) x\n#define X\n#define name\n"]
DIR_TAILS = ["", "\n", "\nint\tf(void)\n{\n\treturn (0);\n}\n", "\n#endif\n"]


def tokseq_cases(spec):
    import itertools
    k = 0
    for L in range(1, spec["maxlen"] + 1):
        for seq in itertools.product(TOKS, repeat=L):
            k += 1
            if k % spec["nshards"] == spec["shard"]:
                yield seq
    r = random.Random("tokseq/%s/%d" % (spec["seed"], spec["shard"]))
    for _ in range(spec["sample"]):
        yield tuple(r.choice(TOKS) for _ in range(r.randint(3, 6)))


def run_tokseq(spec):
    sh = Shard(max_per_sig=3)
    for seq in tokseq_cases(spec):
        line = " ".join(seq)
        for name, src, ctx in (("t.c", line + "\n", "file"), ("t.c", line, "file_no_nl"),
                               ("t.h", line + "\n", "header"),
                               ("t.c", "int\tf(void)\n{\n\t" + line + "\n}\n", "body"),
                               ("t.c", "int\tf(void)\n{\n\t" + line, "body_open"),
                               ("t.c", line + "\\\n ", "ends_in_splice_and_space"),
                               ("t.c", line + "\n  ", "ends_in_spaces_line"),
                               ("t.c", line + " \\\n", "ends_in_splice")):
            judge(sh, name, src, {"tokens": list(seq), "context": ctx}, "tokseq")
    sh.sample({"token_sequences": "all sequences up to length %d over %d token spellings + %d sampled of length 3-6, in 5 contexts" % (
        spec["maxlen"], len(TOKS), spec["sample"])})
    return sh


def run_decls(spec):
    from nv.gen import decls
    sh = Shard(max_per_sig=3)
    r = random.Random("decls/%s/%d" % (spec["seed"], spec["shard"]))
    for _ in range(spec["n"]):
        name, src = decls.source(r)
        judge(sh, name, src, {}, "decls")
    sh.sample({"declaration_shaped_file": decls.source(random.Random(7))[1][:200]})
    return sh


DEEP_SHAPES = {
    "parentheses": lambda n: "int\tf(int a)\n{\n\treturn (" + "(" * n + "a" + ")" * n + ");\n}\n",
    "braces": lambda n: "int\tg_a[] = " + "{" * n + "1" + "}" * n + ";\n",
    "brackets": lambda n: "int\tf(int *a)\n{\n\treturn (a" + "[a" * n + "[0]" + "]" * n + ");\n}\n",
    "control_structures": lambda n: "int\tf(int a)\n{\n" + "".join("\t" * (k + 1) + "if (a)\n" for k in range(n)) + "\t" * (n + 1) + "a = 1;\n\treturn (a);\n}\n",
    "blocks": lambda n: "int\tf(int a)\n{\n" + "".join("\t" * (k + 1) + "{\n" for k in range(n)) + "".join("\t" * (n - k) + "}\n" for k in range(n)) + "\treturn (a);\n}\n",
    "if_expression": lambda n: "#if " + "(" * n + "1" + ")" * n + "\n# define A 1\n#endif\n",
    "call_arguments": lambda n: "int\tf(int a)\n{\n\treturn (" + "f(" * n + "a" + ")" * n + ");\n}\n",
    "unclosed_parentheses": lambda n: "int\tf(int a)\n{\n\treturn (" + "(" * n + "a);\n}\n",
    "pointer_declarator": lambda n: "int\t" + "(*" * n + "g_a" + ")" * n + ";\n",
}


def run_deep(spec):
    """very deep nesting of every kind: an answer (verdict or one-line fatal diagnostic), never an internal exception"""
    sh = Shard(max_per_sig=2)
    for shape, f in DEEP_SHAPES.items():
        slow = shape in ("control_structures", "blocks")        # the tool is cubic in the depth of these
        depths = (50, 150, 300) + ((400, 1000) if spec.get("tier") == "thorough" else ()) if slow else \
            (50, 200, 500, 900, 1000, 1500) + ((5000,) if spec.get("tier") == "thorough" else ())
        if shape == "pointer_declarator":
            depths = (50, 150, 300, 1000, 1500) + ((400, 900) if spec.get("tier") == "thorough" else ())
        for n in depths:
            for name in ("t.c", "t.h"):
                judge(sh, name, f(n), {"nesting": n, "shape": shape}, "deep")
    return sh


def run_directives(spec):
    sh = Shard(max_per_sig=3)
    k = 0
    for d in DIRECTIVES:
        for a in DIR_ARGS:
            for tail in DIR_TAILS:
                for lead in ("#", "# ", "#\t", "  #"):
                    k += 1
                    if k % spec["nshards"] != spec["shard"]:
                        continue
                    src = lead + d + (" " + a if a else "") + tail
                    for name in ("t.c", "t.h"):
                        judge(sh, name, src, {"directive": d, "arg": a}, "directive")
                        judge(sh, name, "#ifndef T_H\n# define T_H\n" + src, {"directive": d, "arg": a}, "directive")
                        # the names the arguments use are macros defined earlier in the file
                        judge(sh, name, DIR_PROLOGUE[(k // 4) % len(DIR_PROLOGUE)] + src, {"directive": d, "arg": a}, "directive")
    # every name the rule class answers to: a directive is dispatched by its spelling, so each attribute of the class
    # (and of its bases) is a word the input can reach the code with
    if spec["shard"] == 0:
        names = set()
        try:
            import norminette.rules.is_preprocessor_statement as m
            for obj in vars(m).values():
                if isinstance(obj, type):
                    for n in dir(obj):
                        if not n.startswith("__"):
                            names.add(n[len("check_"):] if n.startswith("check_") else n)
                            names.add(n)
        except Exception:
            names = set()
        for d in sorted(names - set(DIRECTIVES)):
            for dd in (d, d.upper()):
                for a in ("", "A", "NAME", "(", "1 +", "\"x\"", "<x>"):
                    for tail in ("", "\n", "\n#endif\n"):
                        src = "#" + dd + (" " + a if a else "") + tail
                        for name in ("t.c", "t.h"):
                            judge(sh, name, src, {"directive": dd, "arg": a}, "directive")
        sh.tally("outcomes", "directive_names_from_the_rule_class", len(names))
    sh.sample({"directive_grid": "%d directives x %d arguments x %d tails x 4 leads x 2 file types x 2 contexts (+ after #define of the names used)" % (
        len(DIRECTIVES), len(DIR_ARGS), len(DIR_TAILS))})
    return sh


# ------------------------------------------------------------------ pipeline

def flat_items(p):
    """flattened token-boundary items of the program text: (start offset, text)"""
    items = []
    off = 0
    nl = len(p.lines)
    for li, l in enumerate(p.lines):
        for t, c in l.segs:
            if t:
                items.append((off, t, c))
                off += len(t)
        if li < nl - 1 or p.final_nl:
            items.append((off, "\n", "ws:nl"))
            off += 1
    return items


def sig_of(r):
    if r.outcome == "crash":
        return ("crash",) + tuple(r.detail)
    return ("hang",) + tuple(r.detail)


def judge(sh, name, src, case_extra, kind):
    r = core.run_confirm(name, src)
    if r.outcome == "hang" and "nesting" in case_extra:
        # the tool's cost grows with the cube of the nesting depth on some shapes: the linear step budget does not
        # apply to this family; a budget of n^2 steps per character decides, and overrunning that one is inconclusive
        n = case_extra["nesting"]
        r = core.api_run(name, src, budget=mon.budget_full(len(src)) + 40 * n * n * len(src))
        if r.outcome == "hang":
            sh.inconclusive.append("deep nesting (%s, %d) exceeded the quadratic step budget" % (case_extra.get("shape"), n))
            return r
    s = r.sess
    nontriv = s.asserts.get("lex.progress", 0) > 0 or len(s.diags) > 0
    sh.case(name + "\0" + src, nontrivial=nontriv)
    sh.tally("outcomes", kind + ":" + r.outcome)
    sh.count("pipeline.outcome_is_verdict_or_fatal")
    if r.outcome in ("crash", "hang"):
        sg = sig_of(r)
        case = {"name": name, "src": src, "mode": "api"}
        case.update(case_extra)
        detail = {"input_class": kind, "outcome": r.outcome, "exc": sg[1] if r.outcome == "crash" else None,
                  "where": sg[-2], "rule": sg[-1]}
        if "nesting" in case_extra:
            detail["nesting"] = case_extra["nesting"]
        sh.violation("pipeline_" + r.outcome, ((kind,) + sg[1:]) if "nesting" not in case_extra else (kind, sg[1], case_extra.get("shape")), case, detail)
    if s.lex_exc is not None:
        sh.count("lexer.exception_inside_pipeline")
    if len(src) > 200 and r.outcome == "ok" and kind != "deep":
        sh.cover("calibration_ratio", int(r.steps / float(len(src))))
    return r


def run_programs(spec):
    sh = Shard(max_per_sig=3)
    rng = random.Random("c05/" + pipework.prog_seed(spec, -1))
    thorough = spec.get("tier") == "thorough"
    for p, tag in pipework.base_programs(spec):
        progs = [(p, "conf")] + [(q, "viol:" + o["name"]) for q, o, _ in pipework.sampled_variants(p, rng, 4)]
        for q, kind in progs:
            src = q.text()
            judge(sh, q.name, src, {"tag": tag}, "complete/" + kind.split(":")[0])
        # damaged inputs from the conforming file and one variant
        for q, kind in progs[:2]:
            src = q.text()
            items = flat_items(q)
            body = [k for k, it in enumerate(items) if it[2] != "hdr"]
            if not body:
                continue
            first = body[0]
            cuts = [items[k][0] for k in range(first + 1, len(items))]
            if not thorough:
                cuts = rng.sample(cuts, min(len(cuts), 22))
            for c in cuts:
                judge(sh, q.name, src[:c], {"tag": tag, "cut": c}, "prefix")
            for c in cuts[:6]:
                judge(sh, q.name, src[:c] + rng.choice(["\\\n ", " ", "\n ", "\\\n", "\t", "??/\n\t"]), {"tag": tag, "cut": c}, "prefix_ws")
            nedit = 16 if not thorough else 120
            for _ in range(nedit):
                k = rng.randrange(first, len(items))
                opn = rng.choice(["del", "dup", "swap", "repl", "ins"])
                texts = [it[1] for it in items]
                if opn == "ins":
                    texts.insert(k, rng.choice(["\\\n", "??/\n", " ", "\t", "\n", "\\\n ", "/* c */", "// c\n", "@", "\"", "'"]))
                elif opn == "del":
                    del texts[k]
                elif opn == "dup":
                    texts.insert(k, texts[k])
                elif opn == "swap" and k + 1 < len(texts):
                    texts[k], texts[k + 1] = texts[k + 1], texts[k]
                else:
                    texts[k] = texts[rng.randrange(first, len(items))]
                judge(sh, q.name, "".join(texts), {"tag": tag, "edit": opn, "at": k}, "edit")
        # garbage fragments as lines of their own at statement boundaries (the C07 workload, judged for totality here)
        from nv.checks import c07
        for q, kind in progs[:3]:
            for _ in range(6 if not thorough else 40):
                s3, frag, where = c07.insert_fragment(q, rng)
                judge(sh, q.name, s3, {"tag": tag, "fragment": frag}, "fragment")
        sh.sample({"name": p.name, "kinds": "complete + prefixes + edits + fragments", "chars": len(p.text())}, cap=1)
    return sh


# ------------------------------------------------------------------ CLI

BYTE_CASES = [
    ("nul_in_code", b"int\tmain(void)\n{\n\treturn (\x000);\n}\n"),
    ("nul_in_string", b"char\t*g_s = \"a\x00b\";\n"),
    ("cr_only", b"int\tmain(void)\r{\r\treturn (0);\r}\r"),
    ("crlf", b"int\tmain(void)\r\n{\r\n\treturn (0);\r\n}\r\n"),
    ("bom", b"\xef\xbb\xbfint\tmain(void)\n{\n\treturn (0);\n}\n"),
    ("utf8_comment", "// café € \U0001F600\nint\tmain(void)\n{\n\treturn (0);\n}\n".encode("utf-8")),
    ("utf8_string", "char\t*g_s = \"café\";\n".encode("utf-8")),
    ("utf8_code", "int\tmaïn(void)\n{\n\treturn (0);\n}\n".encode("utf-8")),
    ("latin1_comment", b"// caf\xe9\nint\tmain(void)\n{\n\treturn (0);\n}\n"),
    ("truncated_utf8", b"/* \xe2\x82 */\nint\tmain(void)\n{\n\treturn (0);\n}\n"),
    ("lone_continuation", b"int\tmain(void)\n{\n\treturn (0); // \x80\n}\n"),
    ("empty", b""),
    ("only_newline", b"\n"),
    ("only_spaces", b"   \t  "),
    ("form_feed", b"int\tmain(void)\n{\n\x0c\treturn (0);\n}\n"),
    ("vertical_tab", b"int\tmain(void)\n{\n\x0b\treturn (0);\n}\n"),
]


def run_cli_cases(spec):
    sh = Shard()
    rng = random.Random("c05cli/%s/%d" % (spec["seed"], spec["shard"]))
    tmp = tempfile.mkdtemp(prefix="nv_c05_")
    try:
        cases = []
        for i, (nm, data) in enumerate(BYTE_CASES):
            if i % 4 == spec["shard"]:
                for ext in (".c", ".h"):
                    cases.append(("bytes:" + nm, "f_" + nm + ext, data))
        # generated files, prefixes and edits through the real command line
        sp = dict(spec)
        sp["n"] = spec["n"]
        for p, tag in pipework.base_programs(sp):
            src = p.text()
            items = flat_items(p)
            cases.append(("complete", p.name, src.encode()))
            for _ in range(2):
                c = items[rng.randrange(len(items) // 2, len(items))][0]
                cases.append(("prefix", p.name, src[:c].encode()))
        for k, (kind, fname, data) in enumerate(cases):
            d = os.path.join(tmp, "c%d" % k)
            os.mkdir(d)
            with open(os.path.join(d, fname), "wb") as f:
                f.write(data)
            r = cliobs.run_cli([fname], cwd=d, timeout=120, trace=False)
            sh.case(fname + "\0" + repr(data), nontrivial=len(data) > 0)
            sh.count("cli.no_traceback_and_not_killed")
            sh.tally("outcomes", "cli:" + kind.split(":")[0] + ":" + str(r.rc))
            bad = None
            if r.timeout:
                sh.inconclusive.append("CLI run exceeded the 120 s wall-clock watchdog (%s)" % kind)
                continue
            if r.traceback():
                lines = [l for l in r.stderr.strip().split("\n") if l.strip()]
                exc = lines[-1].split(":")[0] if lines else "?"
                where = [l.strip() for l in lines if l.strip().startswith("File ") and "/norminette/" in l]
                fn = where[-1].rsplit(" in ", 1)[-1] if where else "?"
                bad = ("cli_traceback", exc, fn)
            elif r.rc is None or r.rc < 0:
                bad = ("cli_killed", str(r.rc), "-")      # ended by a signal; any ordinary exit status is an answer
            if bad:
                try:
                    data.decode("utf-8")
                    valid = True
                except UnicodeDecodeError:
                    valid = False
                sh.violation(bad[0], (kind.split(":")[0],) + bad[1:],
                             {"mode": "cli", "fname": fname, "data_hex": data.hex()},
                             {"input_class": kind, "exc": bad[1], "where": bad[2], "valid_utf8": valid,
                              "stderr_tail": r.stderr[-400:]})
            if k % 5 == 0 and not bad:
                # the same file twice with some of the standard streams on a terminal and the others piped
                for tty in (("stdout", "stderr"), ("stderr",), ("stdout",), ("stdin", "stdout", "stderr")):
                    rt = cliobs.run_cli([fname, fname], cwd=d, timeout=120, tty=tty)
                    sh.case("tty\0" + ",".join(tty) + "\0" + fname + "\0" + repr(data))
                    sh.count("cli.no_traceback_with_terminal_streams")
                    sh.tally("outcomes", "cli_tty:" + "+".join(tty) + ":" + str(rt.rc))
                    if rt.timeout:
                        sh.inconclusive.append("CLI run on a terminal exceeded the wall-clock watchdog")
                    elif rt.traceback() or "Traceback (most recent call last)" in rt.stdout or rt.rc is None or rt.rc < 0:
                        txt = rt.stderr + rt.stdout
                        lines = [l for l in txt.strip().split("\n") if l.strip()]
                        sh.violation("cli_traceback_on_terminal", ("+".join(tty), lines[-1].split(":")[0] if lines else "?"),
                                     {"mode": "cli_tty", "fname": fname, "data_hex": data.hex(), "tty": list(tty)},
                                     {"tty": list(tty), "rc": rt.rc, "tail": txt[-400:]})
            shutil.rmtree(d, ignore_errors=True)
        sh.sample({"cli_case": cases[0][0], "file": cases[0][1], "bytes": repr(cases[0][2][:60])}, cap=1)
    finally:
        shutil.rmtree(tmp, ignore_errors=True)
    return sh


# ------------------------------------------------------------------ entry points

def run_shard(spec):
    if spec["mode"] == "programs":
        return run_programs(spec).result()
    if spec["mode"] == "cli":
        return run_cli_cases(spec).result()
    if spec["mode"] == "tokseq":
        return run_tokseq(spec).result()
    if spec["mode"] == "directives":
        return run_directives(spec).result()
    if spec["mode"] == "decls":
        return run_decls(spec).result()
    if spec["mode"] == "deep":
        return run_deep(spec).result()
    sh = lexpass.run_pass(spec, kinds=set(), exc_is_violation=True, clock=True,
                          nontrivial=lambda s, src: s.asserts.get("lex.progress", 0) > 0 or len(s.diags) > 0)
    sh.count("lexer.total", sh.evaluations)
    return sh.result()


def replay(case, sh):
    if case.get("mode") == "lex":
        r = lexpass.run_pass({"mode": "list", "items": [case["src"]]}, set(), exc_is_violation=True, clock=True)
        sh.violations += r.violations
        sh.evaluations += 1
    elif case.get("mode") == "cli_tty":
        d = tempfile.mkdtemp(prefix="nv_c05r_")
        try:
            with open(os.path.join(d, case["fname"]), "wb") as f:
                f.write(bytes.fromhex(case["data_hex"]))
            rt = cliobs.run_cli([case["fname"], case["fname"]], cwd=d, timeout=120, tty=tuple(case["tty"]))
            sh.evaluations += 1
            if rt.traceback() or "Traceback (most recent call last)" in rt.stdout or rt.rc is None or rt.rc < 0:
                sh.violation("cli_traceback_on_terminal", ("replay",), case, {"rc": rt.rc})
        finally:
            shutil.rmtree(d, ignore_errors=True)
    elif case.get("mode") == "cli":
        tmp = tempfile.mkdtemp(prefix="nv_c05r_")
        try:
            with open(os.path.join(tmp, case["fname"]), "wb") as f:
                f.write(bytes.fromhex(case["data_hex"]))
            r = cliobs.run_cli([case["fname"]], cwd=tmp, trace=False)
            sh.evaluations += 1
            if r.traceback() or r.rc is None or r.rc < 0:
                lines = [l for l in r.stderr.strip().split("\n") if l.strip()]
                exc = lines[-1].split(":")[0] if lines else "?"
                try:
                    bytes.fromhex(case["data_hex"]).decode("utf-8")
                    valid = True
                except UnicodeDecodeError:
                    valid = False
                sh.violation("cli_traceback" if r.traceback() else "cli_status", ("replay", exc), case,
                             {"exc": exc, "valid_utf8": valid, "stderr_tail": r.stderr[-400:]})
        finally:
            shutil.rmtree(tmp, ignore_errors=True)
    else:
        judge(sh, case["name"], case["src"], {}, case.get("kind", "replay"))


def finish(merged, tier, seed):
    a = merged["asserts"]
    inc = []
    if a.get("lexer.total", 0) < 100000:
        inc.append("only %d lexer runs" % a.get("lexer.total", 0))
    if a.get("pipeline.outcome_is_verdict_or_fatal", 0) < 2000:
        inc.append("only %d pipeline runs" % a.get("pipeline.outcome_is_verdict_or_fatal", 0))
    if a.get("cli.no_traceback_and_not_killed", 0) < 30:
        inc.append("only %d CLI runs" % a.get("cli.no_traceback_and_not_killed", 0))
    ratios = merged["cov"].pop("calibration_ratio", None) or [0]
    ratio = max(ratios)
    if ratio > 15000 / 20.0:
        inc.append("calibration: %.0f steps/char on complete files exceeds B/20" % ratio)
    maxlen = 4 if tier == "quick" else 5
    return {"inconclusive": inc,
            "coverage": {"exhaustive_subspaces": ["all strings of length <= %d over the 25-symbol alphabet (lexer)" % maxlen],
                         "outcomes": merged["cov"].get("outcomes"),
                         "calibration_max_steps_per_char": ratio, "step_budget": "2e6 + 15000 n (first stage 1e5 + 1500 n)",
                         "lexer_exception_kinds": merged["cov"].get("lexer_exceptions")},
            "summary": ["outcomes: %s" % merged["cov"].get("outcomes")]}
