"""C18 - diagnostics do not depend on how identifiers are spelled (DESIGN §4.18).

Relation between two monitored runs: a file and the same file after a
consistent renaming of its user identifiers (occurrences known from the IR) to
names of the same length and naming class.  Oracle: identical observation
(code, level, line and column of every diagnostic, and the status).
"""
import random
import string

from nv import relwork
from nv.gen import conf
from nv.run import Shard

ID = "C18"
LEVEL = "exploration"
RULE = ("pairs (file, consistently renamed file) over generated conforming files and one-violation variants; target "
        "names half random, half from a hostile vocabulary (libc names, C23/C++ keywords unknown to the tool, keyword "
        "prefixes); non-trivial = at least one identifier changed; distinct = distinct text pair")
ASSUMPTIONS = ["renaming keeps length, g_/s_/t_/u_/e_/ft_ prefix, letter case and digit positions of every name",
               "never renamed to a keyword of the tool's table, `environ`, `defined`, `__attribute__`, `main`"]
WORKER_TIMEOUT = {"quick": 600, "thorough": 3600}

RENAMABLE = {"id:var", "id:param", "id:func", "id:type", "id:tag", "id:global", "id:macro", "id:member",
             "id:enumconst", "id:label"}
HOSTILE_BY_LEN = {}
for _w in conf.HOSTILE + ["errno", "len", "strlen", "memset", "exit", "abort", "stdin", "va_arg", "assert", "typeof",
                          "wchar", "int8", "uint8", "float2", "asm", "inline2", "bool", "true", "false", "nullptr",
                          "offsetof", "alignof", "noreturn", "generic", "atomic", "thread", "signal", "setjmp"]:
    HOSTILE_BY_LEN.setdefault(len(_w), []).append(_w)
# substrings of every name the tool treats specially: a careless `in` / startswith test on them shows up here
for _special in ("environ", "defined", "attribute", "main", "size_t", "include", "define", "ifndef", "endif", "pragma",
                 "struct", "union", "enum", "typedef", "static", "const", "sizeof", "return", "while", "else", "void"):
    for _a in range(len(_special)):
        for _b in range(_a + 1, len(_special) + 1):
            _w = _special[_a:_b]
            if _w.isalpha() and _w not in conf.KEYWORDS and _w not in conf.SPECIAL and _w not in HOSTILE_BY_LEN.get(len(_w), []):
                HOSTILE_BY_LEN.setdefault(len(_w), []).append(_w)
PREFIX_LETTERS = "gsteuf"


def plan(tier, seed):
    q = tier == "quick"
    n = 16 if q else 48
    return [{"mode": "pairs", "seed": seed, "shard": i, "n": 36 if q else 300} for i in range(n)] + \
        [{"mode": "history", "seed": seed, "shard": i, "n": 60 if q else 1500} for i in range(4)]


def prefix_of(name):
    for pre in ("ft_", "g_", "s_", "t_", "u_", "e_", "k_", "x_"):
        if name.startswith(pre):
            return pre
    return ""


# names the tool treats specially, by the syntactic class they are special in: parts of them and names containing
# them are ordinary names of that class
SPECIAL_BY_CLASS = {"id:global": ["environ"], "id:func": ["main"], "id:macro": ["NULL", "DEFINED"], "id:var": ["environ", "main"],
                    "id:param": ["environ", "argc"], "id:member": ["environ", "main"]}


def special_like(r, cls, n, upper=False):
    out = []
    for w in SPECIAL_BY_CLASS.get(cls, []):
        out += [w[a:a + n] for a in range(0, len(w) - n + 1)]                    # parts
        if n > len(w):
            fillc = string.ascii_uppercase if w.isupper() else string.ascii_lowercase
            pad = "".join(r.choice(fillc) for _ in range(n - len(w)))
            out += [w + pad, pad + w]                                            # names containing it
    out = [w for w in out if len(w) == n and w.isalpha()]
    return r.choice(out) if out else None


def fresh(r, old, taken, cls=None):
    pre = prefix_of(old)
    rest = old[len(pre):]
    for attempt in range(200):
        cand = None
        if attempt < 2 and cls in SPECIAL_BY_CLASS and r.random() < 0.25 and rest.isalpha():
            w = special_like(r, cls, len(rest))
            if w and (w.isupper() == rest.isupper()) and (w.islower() == rest.islower()):
                cand = pre + w
        if cand is None and attempt < 3 and r.random() < 0.5 and rest.islower() and rest.isalpha():
            pool = HOSTILE_BY_LEN.get(len(rest), [])
            pool = [w for w in pool if w.isalpha()]
            if pool:
                cand = pre + r.choice(pool)
        if cand is None:
            out = []
            for k, ch in enumerate(rest):
                if ch.islower():
                    out.append(r.choice(string.ascii_lowercase))
                elif ch.isupper():
                    out.append(r.choice(string.ascii_uppercase))
                elif ch.isdigit():
                    out.append(r.choice(string.digits))
                else:
                    out.append(ch)
            if not pre and out and out[0].islower() and r.random() < 0.3:
                out[0] = r.choice(PREFIX_LETTERS)       # first letter of a naming-class prefix, without the underscore
            if len(out) >= 4 and "".join(out[-2:]).islower() and r.random() < 0.12:
                out[-2:] = ["_", r.choice("tseug")]     # a suffix that looks like a type / class mark: `size_t`-like
            cand = pre + "".join(out)
        if cand == old or cand in taken or cand in conf.KEYWORDS or cand in conf.SPECIAL:
            continue
        if not pre and (cand[:2] in conf.PREFIX_CLASSES or cand.startswith("ft_")):
            continue
        if cand.upper() == "NULL":
            continue
        return cand
    return old


def rename(p, r):
    names = {}
    present = set()
    for l in p.lines:
        for t, c in l.segs:
            if c.startswith("id:"):
                present.add(t)
    q = p.copy()
    changed = 0
    for l in q.lines:
        for j, (t, c) in enumerate(l.segs):
            if c in RENAMABLE:
                if t not in names:
                    names[t] = fresh(r, t, present | set(names.values()), c)
                if names[t] != t:
                    changed += 1
                l.segs[j] = (names[t], c)
    return q, changed, names


PROBE = ("{T}\t*{F}({T} *{V}, char *p)\n{{\n\tint\tn;\n\n\tn = ({T})*p;\n\tn = ({T})&n + ({T})-n;\n\tn = sizeof({T}) + ({T})~n;\n"
         "\t{V} = ({T} *)p;\n\tn = ({W})*n;\n\tn = ({W}) * n + ({K})&n;\n\tn = {M} * n + {M}(n);\n\tn = {G} + {F}(NULL, p)->{W};\n\t{T} * {V};\n\t{K}(n);\n\treturn (({T} *)p);\n}}\n")
TWIN = ("#define {M} 1\n\ntypedef struct s_{S}\n{{\n\tint\t{W};\n}}\t{T};\n\n{T}\t{G};\n\nint\t{K}({T} {V})\n{{\n\t{T}\t{W};\n"
        "\tstruct s_{S}\t*q;\n\n\t{W} = {V};\n\tq = &{W};\n\treturn (q->{W});\n}}\n")


def name_set(r, like=None):
    def low(n):
        w = "".join(r.choice(string.ascii_lowercase) for _ in range(n))
        if n >= 3 and r.random() < 0.3:
            w = w[:-2] + r.choice(["_t", "_t", "_s", "_e", "_u", "_g"])       # looks like a type / class suffix: still a plain name
        return w
    ln = like or {}
    return {"T": "t_" + low(len(ln["T"]) - 2 if like else r.randint(2, 6)), "S": low(len(ln["S"]) if like else r.randint(1, 5)),
            "V": low(len(ln["V"]) if like else r.randint(1, 6)), "W": low(len(ln["W"]) if like else r.randint(3, 7)),
            "M": low(len(ln["M"]) if like else r.randint(2, 6)).upper(), "F": "ft_" + low(len(ln["F"]) - 3 if like else r.randint(2, 6)),
            "K": low(len(ln["K"]) if like else r.randint(3, 7)), "G": "g_" + low(len(ln["G"]) - 2 if like else r.randint(1, 5))}


def history_case(a, b, order):
    """observations of the probe under names a and under names b, each analysed after the twin that declares names a"""
    out = []
    for ns in ((a, b) if order == 0 else (b, a)):
        relwork.obs_of("twin.c", TWIN.format(**a))
        out.append((ns is a, relwork.obs_of("probe.c", PROBE.format(**ns))[0]))
    oa = [o for is_a, o in out if is_a][0]
    ob = [o for is_a, o in out if not is_a][0]
    return oa, ob


def run_history(spec):
    sh = Shard(max_per_sig=3)
    r = random.Random("c18h/%s/%d" % (spec["seed"], spec["shard"]))
    for k in range(spec["n"]):
        a = name_set(r)
        b = name_set(r, like=a)
        if len(set(a.values())) < len(a) or len(set(b.values())) < len(b) or set(a.values()) & set(b.values()):
            continue
        if any(v in conf.KEYWORDS or v.upper() == "NULL" for v in list(a.values()) + list(b.values())):
            continue
        oa, ob = history_case(a, b, k % 2)
        sh.case("hist\0" + repr(sorted(a.items())) + repr(sorted(b.items())))
        sh.count("c18.obs_equal_after_a_file_declaring_the_original_names")
        sh.tally("pairs", "after_twin")
        if oa != ob:
            d = relwork.diff(oa, ob)
            sh.violation("obs_differs_after_history", relwork.sig_of_diff(d), {"mode": "history", "a": a, "b": b, "order": k % 2}, d)
    return sh.result()


def run_shard(spec):
    if spec.get("mode") == "history":
        return run_history(spec)
    sh = Shard(max_per_sig=3)
    r = random.Random("c18/%s/%d" % (spec["seed"], spec["shard"]))
    for p, tag in relwork.corpus(spec, nvar=3, force=("V40", "V41", "V42", "V38", "V39", "V43")):
        q, changed, names = rename(p, r)
        if not changed:
            continue
        a, ra = relwork.obs_of(p.name, p.text())
        b, rb = relwork.obs_of(q.name, q.text())
        sh.case(p.text() + "\0" + q.text())
        sh.count("c18.obs_equal")
        sh.tally("identifiers_renamed", "n", len(names))
        sh.tally("pairs", tag.split(":")[0])
        if a != b:
            d = relwork.diff(a, b)
            d["names"] = sorted(names.items())[:12]
            sh.violation("obs_differs", (tag.split(":")[1],) + relwork.sig_of_diff(d),
                         {"mode": "pair", "name": p.name, "a": p.text(), "b": q.text()}, d)
        sh.sample({"renaming": sorted(names.items())[:6]}, cap=2)
    return sh.result()


def replay(case, sh):
    if case.get("mode") == "history":
        oa, ob = history_case(case["a"], case["b"], case.get("order", 0))
        sh.evaluations += 1
        if oa != ob:
            sh.violation("obs_differs_after_history", ("replay",), case, relwork.diff(oa, ob))
        return
    a, _ = relwork.obs_of(case["name"], case["a"])
    b, _ = relwork.obs_of(case["name"], case["b"])
    sh.evaluations += 1
    if a != b:
        sh.violation("obs_differs", ("replay",), case, relwork.diff(a, b))


def finish(merged, tier, seed):
    a = merged["asserts"]
    inc = []
    if a.get("c18.obs_equal", 0) < 500:
        inc.append("only %d pairs compared" % a.get("c18.obs_equal", 0))
    return {"inconclusive": inc, "coverage": {"pairs": merged["cov"].get("pairs"),
                                              "identifiers_renamed": merged["cov"].get("identifiers_renamed", {}).get("n")},
            "summary": ["pairs %s, %s identifiers renamed" % (merged["cov"].get("pairs"),
                                                            merged["cov"].get("identifiers_renamed", {}).get("n"))]}
