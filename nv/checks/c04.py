"""C04 - exit status and per-file verdict agree with the diagnostics (DESIGN §4.4).

Workload: sequences of files of the classes {clean, notice-only, erroneous,
fatally unparsable} - all 341 sequences of length 0..4, as explicit paths (also
repeating one path) and as a directory - through the real command line.
Deciding monitor: M-CLI, three views that must agree: the in-process trace
(which files were analysed and the diagnostics the rules emitted, recorded
by sitecustomize inside the child), stdout, and the exit status.
"""
import itertools
import os
import random
import shutil
import tempfile

from nv import core, cliobs, oracle
from nv.gen import conf
from nv.run import Shard

ID = "C04"
LEVEL = "exploration"
RULE = ("every sequence of length 0..4 over the four file classes (341), each as explicit paths in that order and as a "
        "directory, plus sequences that mention one path several times; thorough adds sampled sequences of length 5-40, "
        "the JSON format and -d; non-trivial = the sequence selects at least one file or is one of the empty-selection "
        "cases; distinct = distinct (argv, file contents)")
ASSUMPTIONS = ["class of a representative file is established by an in-process run before it is used",
               "directory mode compares multisets (the order is the file system's)"]
WORKER_TIMEOUT = {"quick": 900, "thorough": 3600}

CLASSES = ["clean", "notice", "error", "fatal"]
FATAL_SOURCES = [
    "#foo bar\nint\tmain(void)\n{\n\treturn (0);\n}\n",
    "int\tmain(void\n{\n\treturn (0);\n}\n",
    "int\tmain(void)\n{\n\treturn (0);\n}\n) ) ]\n",
    "int\tmain(void)\n{\n\t= = =\n\treturn (0);\n}\n",
]


def plan(tier, seed):
    q = tier == "quick"
    seqs = [s for L in range(0, 5) for s in itertools.product(range(4), repeat=L)]
    n = 16
    specs = [{"mode": "seqs", "seed": seed, "shard": i, "nshards": n, "extra": 0 if q else 130, "tier": tier} for i in range(n)]
    return specs


def representatives(r):
    """class -> list of (extension, text), classes verified by an in-process run"""
    reps = {c: [] for c in CLASSES}
    k = 0
    while min(len(reps[c]) for c in ("clean", "notice", "error")) < 3 and k < 400:
        k += 1
        kind = "h" if k % 4 == 3 else "c"
        name = "rep." + kind
        p = conf.make("c04rep/%d/%d" % (r.randint(0, 10 ** 9), k), kind, name=name)
        cands = [p]
        from nv import pipework
        cands += [q for q, o, _ in pipework.sampled_variants(p, r, 1)]
        for c in cands:
            src = c.text()
            run = core.api_run(name, src, clock=False)
            if run.outcome != "ok":
                continue
            if run.status == "Error":
                cls = "error"
            elif any(d[1] == "Notice" for d in run.diags):
                cls = "notice"
            else:
                cls = "clean"
            if len(reps[cls]) < 3 and kind == "c" or (kind == "h" and cls == "clean" and len(reps[cls]) < 3):
                reps[cls].append((kind, src))
    for src in FATAL_SOURCES:
        run = core.api_run("rep.c", src, clock=False)
        if run.outcome == "fatal":
            reps["fatal"].append(("c", src))
    # .h files carry their guard: keep them under their generated name
    return reps


def expected_status(cls):
    return {"clean": "OK", "notice": "OK", "error": "Error"}[cls]


def judge(sh, seq, argv_names, mode, r, case, files_by_name, fmt="humanized"):
    """seq: list of class names in argv order; argv_names: the basenames in argv order"""
    detail = {"classes": seq, "mode": mode, "fatal_in_sequence": "fatal" in seq, "n_files": len(seq), "rc": r.rc, "format": fmt}
    sh.count("c04.no_traceback")
    if r.timeout:
        sh.inconclusive.append("CLI run exceeded the wall-clock watchdog")
        return
    if r.traceback():
        lines = [l for l in r.stderr.strip().split("\n") if l.strip()]
        detail["stderr_tail"] = r.stderr[-400:]
        sh.violation("traceback", (lines[-1].split(":")[0] if lines else "?", "empty" if not seq else "nonempty"), case, detail)
        return
    # parse stdout
    try:
        if fmt == "json" and "fatal" not in seq:
            files, extra = oracle.parse_json_report(r.stdout) if r.stdout.strip() else ([], [])
        else:
            files = oracle.parse_humanized(r.stdout)
    except (oracle.ReportParseError, ValueError, KeyError) as e:
        if "fatal" in seq and mode != "dir":
            # the wording of a fatal report is not fixed by the property: the file must be named and the status non-zero
            k = seq.index("fatal")
            sh.count("c04.fatal_named_and_nonzero")
            if r.rc in (0, None) or argv_names[k] not in r.stdout + r.stderr:
                sh.violation("fatal_not_reported", (str(r.rc),), case, detail)
            return
        detail["stdout_tail"] = r.stdout[-400:]
        sh.violation("unparsable_output", (type(e).__name__,), case, detail)
        return
    trace_files = (r.trace or {}).get("files", [])
    # (2) verdict agrees with what the rules emitted, for every printed non-fatal file
    by_trace = {}
    for tf in trace_files:
        by_trace.setdefault(tf["basename"], []).append(tf)
    for f in files:
        if f["fatal"] is not None:
            continue
        sh.count("c04.verdict_iff_no_error_level_diagnostic")
        tfs = by_trace.get(f["name"])
        if not tfs:
            sh.violation("verdict_without_analysis", (f["name"][-2:],), case, detail)
            continue
        tf = tfs[0]
        has_err = any(d[1] == "Error" for d in tf.get("diags", []))
        if (f["status"] == "OK") != (not has_err):
            detail["file"] = f["name"]
            sh.violation("verdict_disagrees_with_diagnostics", (f["status"],), case, detail)
    # (1) one verdict line per file
    sh.count("c04.one_verdict_line_per_file")
    got = [f["name"] for f in files]
    want = list(argv_names)
    ok_lines = (got == want) if mode != "dir" else (sorted(got) == sorted(want))
    if "fatal" in seq:
        # (4) the fatal file is named and the status is non-zero
        k = seq.index("fatal") if mode != "dir" else None
        sh.count("c04.fatal_named_and_nonzero")
        fat = [f for f in files if f["fatal"] is not None]
        if not fat or r.rc in (0, None):
            sh.violation("fatal_not_reported", (str(r.rc),), case, detail)
        elif mode != "dir" and os.path.basename(fat[0]["name"]) != argv_names[k]:
            detail["named"] = fat[0]["name"]
            sh.violation("fatal_names_wrong_file", (), case, detail)
        if not ok_lines:
            missing = [n for n in want if n not in got and n not in [os.path.basename(x["name"]) for x in fat]]
            detail["missing_verdict_lines"] = len(missing)
            detail["only_deviation_is_missing_lines"] = all(f["fatal"] is not None for f in files)
            sh.violation("verdict_lines", ("fatal_aborts_run",), case, detail)
    else:
        if not ok_lines:
            detail.update({"expected": want, "got": got})
            sh.violation("verdict_lines", ("no_fatal",), case, detail)
        else:
            for name, cls, f in zip(want, seq, files if mode != "dir" else sorted(files, key=lambda x: x["name"])):
                pass
            # class by construction
            st = {f["name"]: f["status"] for f in files}
            for name, cls in zip(want, seq):
                sh.count("c04.status_matches_class")
                if st.get(name) != expected_status(cls):
                    detail.update({"file": name, "class": cls, "printed": st.get(name)})
                    sh.violation("status_differs_from_class", (cls,), case, detail)
        # (3) exit status 0 iff every file OK
        sh.count("c04.exit_status_iff_all_ok")
        want_zero = not any(c == "error" for c in seq)
        # the property fixes zero / non-zero only (which non-zero value is the tool's business)
        if (r.rc == 0) != want_zero or r.rc is None or r.rc < 0:
            detail["expected"] = "0" if want_zero else "non-zero"
            sh.violation("exit_status", (str(r.rc), "notice" if "notice" in seq else "", "last=" + (seq[-1] if seq else "-")), case, detail)


def run_shard(spec):
    sh = Shard(max_per_sig=3)
    r = random.Random("c04/%s" % spec["seed"])
    reps = representatives(r)
    for c in CLASSES:
        if not reps[c]:
            sh.inconclusive.append("no representative for class %s" % c)
            return sh.result()
    seqs = [s for L in range(0, 5) for s in itertools.product(range(4), repeat=L)]
    r2 = random.Random("c04x/%s/%d" % (spec["seed"], spec["shard"]))
    extra = [tuple(r2.randrange(4) for _ in range(r2.randint(5, 40))) for _ in range(spec["extra"])]
    tmp = tempfile.mkdtemp(prefix="nv_c04_")
    try:
        for k, s in enumerate(seqs + extra):
            if k % spec["nshards"] != spec["shard"] and k < len(seqs):
                continue
            seq = [CLASSES[i] for i in s]
            d = os.path.join(tmp, "s%d" % k)
            os.mkdir(d)
            names = []
            contents = {}
            for i, cls in enumerate(seq):
                kind, src = reps[cls][(k + i) % len(reps[cls])]
                if kind == "h":
                    # a header's guard follows its name: regenerate under the final name
                    name = "f%02d_%s.h" % (i, cls)
                    src = src.replace("REP_H", name.upper().replace(".", "_"))
                    src = src  # header line 4 shows the name only
                else:
                    name = "f%02d_%s.c" % (i, cls)
                with open(os.path.join(d, name), "w") as f:
                    f.write(src)
                names.append(name)
                contents[name] = src
            fmts = ["humanized"] + (["json"] if spec["tier"] == "thorough" and k % 3 == 0 else [])
            for fmt in fmts:
                opts = ["--no-colors"] + (["-f", "json"] if fmt == "json" else [])
                # (a) explicit paths
                run = cliobs.run_cli(opts + names, cwd=d)
                case = {"mode": "cli", "argv": opts + names, "files": contents, "classes": seq}
                sh.case("paths\0" + fmt + "\0".join(seq) + "\0".join(contents.values()))
                sh.tally("runs", "paths")
                if names:
                    judge(sh, seq, names, "paths", run, case, contents, fmt)
                # (b) directory
                run = cliobs.run_cli(opts + ["."], cwd=d)
                case = {"mode": "cli", "argv": opts + ["."], "files": contents, "classes": seq}
                sh.case("dir\0" + fmt + "\0".join(seq) + "\0".join(contents.values()))
                sh.tally("runs", "dir")
                judge(sh, seq, names, "dir", run, case, contents, fmt)
            # (c) one path mentioned twice
            if names and k % 2 == 0:
                twice = names + [names[0]]
                run = cliobs.run_cli(["--no-colors"] + twice, cwd=d)
                case = {"mode": "cli", "argv": ["--no-colors"] + twice, "files": contents, "classes": seq + [seq[0]]}
                sh.case("twice\0" + "\0".join(seq) + "\0".join(contents.values()))
                sh.tally("runs", "repeated_path")
                judge(sh, seq + [seq[0]], twice, "paths", run, case, contents)
            if not names:
                # empty selection: an empty directory, and a directory with only non-C files
                with open(os.path.join(d, "README.md"), "w") as f:
                    f.write("x\n")
                with open(os.path.join(d, "a.cc"), "w") as f:
                    f.write("int x;\n")
                run = cliobs.run_cli(["--no-colors", "."], cwd=d)
                sh.case("nonc")
                sh.tally("runs", "empty_selection")
                judge(sh, [], [], "dir", run, {"mode": "cli", "argv": ["--no-colors", "."], "files": {"README.md": "x\n", "a.cc": "int x;\n"},
                                               "classes": []}, {})
                # ... under each option, with and without an argument, inside and outside a git work tree
                import subprocess
                e1 = os.path.join(d, "e1")
                e2 = os.path.join(d, "e2", "sub")
                os.makedirs(e1)
                os.makedirs(e2)
                with open(os.path.join(e2, "notes.txt"), "w") as f:
                    f.write("x\n")
                subprocess.run(["git", "init", "-q", e1], capture_output=True)
                for cwd, tag in ((e1, "git"), (os.path.join(d, "e2"), "plain")):
                    for opts in ([], ["-f", "json"], ["-o"], ["-d"], ["-dd"], ["--use-gitignore"], ["-R", "CheckDefine"],
                                 ["--use-gitignore", "-f", "json"]):
                        for args in ([], ["."], ["sub"] if tag == "plain" else ["./"]):
                            argv = ["--no-colors"] + opts + args
                            run = cliobs.run_cli(argv, cwd=cwd)
                            sh.case("empty\0" + tag + "\0" + " ".join(argv))
                            sh.tally("runs", "empty_selection")
                            case = {"mode": "empty", "argv": argv, "git": tag == "git", "classes": []}
                            sh.count("c04.empty_selection_ends_cleanly")
                            if run.timeout:
                                sh.inconclusive.append("CLI run exceeded the wall-clock watchdog")
                            elif run.traceback() or run.rc != 0:
                                sh.violation("empty_selection", (tag, " ".join(opts), "traceback" if run.traceback() else "rc=%s" % run.rc),
                                             case, {"rc": run.rc, "stderr_tail": run.stderr[-300:], "stdout_tail": run.stdout[-200:]})
            shutil.rmtree(d, ignore_errors=True)
        # same base name in two directories, different classes (a header with its guard / without the guard's
        # #define, a clean / an erroneous .c): each keeps its own verdict whatever was analysed before it in the run
        if spec["shard"] % 4 == 2 or spec["tier"] == "thorough":
            hs = [x for x in reps["clean"] if x[0] == "h"]
            pairs = []
            if hs:
                good = hs[0][1].replace("REP_H", "UTIL_H")
                import re
                bad = re.sub(r"^# define UTIL_H\n", "", good, count=1, flags=re.M)
                if bad != good:
                    pairs.append(("util.h", good, bad))
            cc = [x for x in reps["clean"] if x[0] == "c"]
            ce = [x for x in reps["error"] if x[0] == "c"]
            if cc and ce:
                pairs.append(("util.c", cc[0][1], ce[0][1]))
            for name, good, bad in pairs:
                d = os.path.join(tmp, "sib_" + name)
                for sub, txt in (("one", good), ("two", bad), ("three", good)):
                    os.makedirs(os.path.join(d, sub))
                    with open(os.path.join(d, sub, name), "w") as f:
                        f.write(txt)
                alone = cliobs.run_cli(["--no-colors", os.path.join("two", name)], cwd=d)
                for order in (["one", "two"], ["two", "one"], ["one", "two", "three"], ["one", "one", "two", "two"], ["."]):
                    argv = ["--no-colors"] + [os.path.join(o, name) if o != "." else "." for o in order]
                    run = cliobs.run_cli(argv, cwd=d)
                    sh.case("sibling\0" + name + "\0" + " ".join(order))
                    sh.tally("runs", "same_name_siblings")
                    sh.count("c04.same_name_files_keep_their_own_verdict")
                    case = {"mode": "siblings", "name": name, "good": good, "bad": bad, "order": order}
                    if run.timeout:
                        sh.inconclusive.append("CLI run exceeded the wall-clock watchdog")
                        continue
                    try:
                        files = oracle.parse_humanized(run.stdout)
                    except (oracle.ReportParseError, ValueError, KeyError) as e:
                        sh.violation("unparsable_output", (type(e).__name__,), case, {"stdout_tail": run.stdout[-300:]})
                        continue
                    want = ["Error" if o == "two" else "OK" for o in order] if order != ["."] else None
                    got = [f["status"] for f in files]
                    if want is None:
                        ok = sorted(got) == ["Error", "OK", "OK"]
                    else:
                        ok = got == want
                    if not ok or run.rc in (0, None) or run.traceback():
                        sh.violation("sibling_verdicts", (name[-2:], " ".join(order)), case,
                                     {"expected": want or "one Error, two OK", "got": got, "rc": run.rc, "alone_rc": alone.rc})
        # independence from the number of files: large runs around the 8-bit width of an exit status
        counts = [c for i, c in enumerate([255, 256, 257, 512, 128, 300]) if i % spec["nshards"] == spec["shard"]]
        if spec["tier"] == "quick":
            counts = [c for c in counts if c <= 257]
        for n in counts:
            for cls in ("error", "clean"):
                d = os.path.join(tmp, "many_%d_%s" % (n, cls))
                os.mkdir(d)
                kind, src = reps[cls][0]
                if kind != "c":
                    kind, src = [x for x in reps[cls] if x[0] == "c"][0]
                for i in range(n):
                    with open(os.path.join(d, "m%03d.c" % i), "w") as f:
                        f.write(src)
                run = cliobs.run_cli(["--no-colors", "."], cwd=d, timeout=600, trace=False)
                sh.case("many\0%d\0%s" % (n, cls))
                sh.tally("runs", "many_files")
                sh.count("c04.exit_status_iff_all_ok")
                nlines = sum(1 for l in run.stdout.split("\n") if l.endswith(": OK!") or l.endswith(": Error!"))
                bad = (run.rc == 0) != (cls == "clean") or run.rc is None or run.traceback() or nlines != n
                if bad:
                    sh.violation("exit_status_many_files", (cls, str(n), str(run.rc)), {"mode": "many", "n": n, "cls": cls, "src": src},
                                 {"n_files": n, "class": cls, "rc": run.rc, "verdict_lines": nlines})
                shutil.rmtree(d, ignore_errors=True)
        sh.sample({"sequence": ["clean", "error", "notice"], "argv": ["--no-colors", "f00_clean.c", "f01_error.c", "f02_notice.c"]}, cap=1)
    finally:
        shutil.rmtree(tmp, ignore_errors=True)
    return sh.result()


def replay(case, sh):
    tmp = tempfile.mkdtemp(prefix="nv_c04r_")
    try:
        if case.get("mode") == "many":
            for i in range(case["n"]):
                with open(os.path.join(tmp, "m%03d.c" % i), "w") as f:
                    f.write(case["src"])
            run = cliobs.run_cli(["--no-colors", "."], cwd=tmp, timeout=600, trace=False)
            sh.evaluations += 1
            if (run.rc == 0) != (case["cls"] == "clean"):
                sh.violation("exit_status_many_files", ("replay",), case, {"rc": run.rc})
            return
        if case.get("mode") == "siblings":
            name = case["name"]
            for sub, txt in (("one", case["good"]), ("two", case["bad"]), ("three", case["good"])):
                os.makedirs(os.path.join(tmp, sub))
                with open(os.path.join(tmp, sub, name), "w") as f:
                    f.write(txt)
            order = case["order"]
            run = cliobs.run_cli(["--no-colors"] + [os.path.join(o, name) if o != "." else "." for o in order], cwd=tmp)
            sh.evaluations += 1
            files = oracle.parse_humanized(run.stdout)
            got = [f["status"] for f in files]
            want = ["Error" if o == "two" else "OK" for o in order] if order != ["."] else None
            if (sorted(got) != ["Error", "OK", "OK"] if want is None else got != want) or run.rc in (0, None):
                sh.violation("sibling_verdicts", ("replay",), case, {"got": got, "rc": run.rc})
            return
        if case.get("mode") == "empty":
            import subprocess
            os.makedirs(os.path.join(tmp, "sub"))
            with open(os.path.join(tmp, "sub", "notes.txt"), "w") as f:
                f.write("x\n")
            if case.get("git"):
                subprocess.run(["git", "init", "-q", tmp], capture_output=True)
            run = cliobs.run_cli(case["argv"], cwd=tmp)
            sh.evaluations += 1
            if run.traceback() or run.rc != 0:
                sh.violation("empty_selection", ("replay",), case, {"rc": run.rc})
            return
        for n, t in case["files"].items():
            with open(os.path.join(tmp, n), "w") as f:
                f.write(t)
        run = cliobs.run_cli(case["argv"], cwd=tmp)
        sh.evaluations += 1
        names = [a for a in case["argv"] if a in case["files"]]
        mode = "dir" if "." in case["argv"] else "paths"
        if mode == "dir":
            names = sorted(n for n in case["files"] if n.endswith((".c", ".h")))
            seq = case["classes"]
        else:
            seq = case["classes"]
        judge(sh, seq, names, mode, run, case, case["files"], "json" if "json" in case["argv"] else "humanized")
    finally:
        shutil.rmtree(tmp, ignore_errors=True)


def finish(merged, tier, seed):
    a = merged["asserts"]
    inc = []
    for k, floor in (("c04.exit_status_iff_all_ok", 150), ("c04.fatal_named_and_nonzero", 150), ("c04.no_traceback", 600), ("c04.empty_selection_ends_cleanly", 40)):
        if a.get(k, 0) < floor:
            inc.append("%s evaluated only %d times" % (k, a.get(k, 0)))
    return {"inconclusive": inc, "exhaustive": False,
            "coverage": {"runs": merged["cov"].get("runs"),
                         "exhaustive_subspaces": ["all 341 class sequences of length 0..4, as paths and as a directory"]},
            "summary": ["runs %s" % merged["cov"].get("runs")]}
