"""C07 - every statement is examined exactly once; nothing is skipped silently (DESIGN §4.7).

Deciding monitor: M-SEG (wraps Registry.run, Registry.run_rules and
Context.pop_tokens).  On every run: each matched statement consumes >= 1
token, the registry pops exactly what the matching rule claimed, the
statements tile the token list, and an unrecognised token always ends in the
fatal diagnostic.  On conforming files additionally: every statement starts
in column 1 and ends with a NEWLINE, the number of statements equals the
number of IR lines (known by construction) and the scope is back at file level
after each function.  Second half: an unrecognisable fragment inserted at a
statement boundary either is absorbed by a rule or stops the run - it is
never dropped while the file is reported.
"""
import os
import random
import shutil
import tempfile

from nv import core, pipework, cliobs
from nv.run import Shard

ID = "C07"
LEVEL = "exploration"
RULE = ("generated conforming files (partition, alignment and depth invariants with the statement count known by "
        "construction), their one-violation variants (partition invariants), and the same programs with a fragment "
        "from a fixed list inserted as a line of its own at a statement boundary (file scope and inside bodies, with "
        "and without final newline); non-trivial = the rules recognised >= 5 statements; distinct = distinct text")
ASSUMPTIONS = ["the generator emits exactly one statement per IR line",
               "a fragment absorbed by a Primary rule says nothing about C07 (counted, not judged)"]
WORKER_TIMEOUT = {"quick": 600, "thorough": 3600}

FRAGMENTS = [")", "]", "= =", ". .", "-> x", ": :", "%", "1 2 3", "\"s\"", "'c'", "+ +", ", ,", "42", "@", "}{", "? :",
             "...", "<:", "== 1", "* / *", "0x", ".5.", "^ ~", "[ ]", "# #", "\\", "$", "`x`", "sizeof", "1.0e", "->",
             "&& ||", "!", "~", "(", "((", "{ )", "a b c d", "int int", "return return", "if", "else else", "while ("]


def plan(tier, seed):
    q = tier == "quick"
    specs = pipework.plan_programs(tier, seed, "C07", nshards=16 if q else 48, per_shard=22 if q else 200)
    specs += [{"mode": "cli", "seed": seed, "shard": i, "n": 14 if q else 120} for i in range(4)]
    specs += [{"mode": "closings"}]
    specs += [{"mode": "decls", "seed": seed, "shard": i, "n": 400 if q else 12000} for i in range(8)]
    return specs


def check_conforming(sh, p, r, case):
    """invariants that hold on conforming files only"""
    stmts = r.sess.stmts
    sh.count("c07.statement_starts_in_column_1", len(stmts))
    sh.count("c07.statement_ends_with_newline", len(stmts))
    eol_split = 0
    skip = set()
    for k, s in enumerate(stmts):
        name, jump, popped, ftype, fpos, ltype, sb, sa, over = s
        nxt = stmts[k + 1] if k + 1 < len(stmts) else None
        if (ltype != "NEWLINE" and nxt is not None and nxt[0] == "IsComment" and nxt[4] is not None and fpos is not None
                and nxt[4][0] == fpos[0] and nxt[4][1] != 1):
            # a comment at the end of a code line is examined as a statement of its own
            eol_split += 1
            skip.add(k)
            skip.add(k + 1)
            sh.violation("eol_comment_statement", (name,), case, {"rule": name, "comment_pos": nxt[4], "index": k})
    for k, s in enumerate(stmts):
        if k in skip:
            continue
        name, jump, popped, ftype, fpos, ltype, sb, sa, over = s
        if fpos is not None and fpos[1] != 1:
            sh.violation("statement_not_at_line_start", (name,), case, {"rule": name, "pos": fpos, "index": k})
        if ltype != "NEWLINE" and k != len(stmts) - 1:
            sh.violation("statement_not_ending_at_line_end", (name, ltype), case, {"rule": name, "last": ltype, "index": k})
    sh.count("c07.statement_count_equals_line_count")
    # the empty statement that is a loop's whole body belongs to the control statement above it
    ir = [l for l in p.lines if l.kind != "stmt_empty"]
    nlines = len(ir)
    if len(stmts) - eol_split != nlines:
        sh.violation("statement_count", (str(len(stmts) - eol_split - nlines),), case,
                     {"statements": len(stmts), "ir_lines": nlines, "eol_comment_splits": eol_split})
    else:
        # depth back at file level after each function's closing brace
        it = iter(stmts)
        kept = [s for k, s in enumerate(stmts) if not (k in skip and s[0] == "IsComment" and s[4] and s[4][1] != 1)]
        for l, s in zip(ir, kept):
            if l.kind in ("fclose", "td_close"):
                sh.count("c07.global_scope_after_function")
                if s[7] != ("GlobalScope", 0):
                    sh.violation("scope_after_function" if l.kind == "fclose" else "scope_after_type", (str(s[7]),), case,
                                 {"scope_after": s[7], "rule": s[0], "line": l.text()})
        if kept:
            sh.count("c07.global_scope_at_end_of_file")
            if kept[-1][7] != ("GlobalScope", 0):
                sh.violation("scope_at_end_of_file", (str(kept[-1][7]),), case, {"scope_after": kept[-1][7]})


def insert_fragment(p, r):
    """-> (text, fragment, where) : fragment as a line of its own at an IR statement boundary"""
    cands = [i for i, l in enumerate(p.lines) if l.kind != "hdr" and (i == 0 or p.lines[i - 1].kind != "hdr")]
    cands.append(len(p.lines))
    i = r.choice(cands)
    frag = r.choice(FRAGMENTS)
    inside = i < len(p.lines) and p.lines[i].func >= 0 and p.lines[i].kind not in ("fhead",)
    indent = "\t" * (p.lines[i].depth if i < len(p.lines) and inside else 0)
    lines = [l.text() for l in p.lines]
    lines.insert(i, indent + frag)
    final_nl = r.random() < 0.7
    return "\n".join(lines) + ("\n" if final_nl else ""), frag, {"index": i, "inside_function": inside, "final_nl": final_nl,
                                                                 "at_end": i == len(p.lines)}


def run_programs(spec):
    sh = Shard(max_per_sig=3)
    rng = random.Random("c07/" + pipework.prog_seed(spec, -1))
    for p, tag in pipework.base_programs(spec):
        src = p.text()
        case = {"name": p.name, "src": src, "mode": "api", "conforming": True, "ir_lines": len(p.lines)}
        r = core.api_run(p.name, src, clock=False)
        sh.case(p.name + "\0" + src, nontrivial=len(r.sess.stmts) >= 5)
        sh.tally("runs", "conforming")
        pipework.monitor_failures(sh, r, case, seg=True)
        sh.add_asserts({k: v for k, v in r.sess.asserts.items() if k.startswith("seg.")})
        if r.outcome == "ok":
            # the file conforms by construction: the invariants do not depend on what the tool reported
            check_conforming(sh, p, r, case)
        for q, o, exp in pipework.sampled_variants(p, rng, 3):
            s2 = q.text()
            c2 = {"name": q.name, "src": s2, "mode": "api", "conforming": False}
            r2 = core.api_run(q.name, s2, clock=False)
            sh.case(q.name + "\0" + s2, nontrivial=len(r2.sess.stmts) >= 5)
            sh.tally("runs", "variant")
            pipework.monitor_failures(sh, r2, c2, seg=True)
            sh.add_asserts({k: v for k, v in r2.sess.asserts.items() if k.startswith("seg.")})
        # second half: unrecognisable fragments
        for _ in range(14):
            base = p if rng.random() < 0.7 else None
            if base is None:
                vs = list(pipework.sampled_variants(p, rng, 1))
                if not vs:
                    continue
                base = vs[0][0]
            s3, frag, where = insert_fragment(base, rng)
            c3 = {"name": base.name, "src": s3, "mode": "api", "fragment": frag, "where": where}
            r3 = core.api_run(base.name, s3, clock=False)
            sh.case(base.name + "\0" + s3, nontrivial=True)
            sh.tally("runs", "fragment")
            sh.add_asserts({k: v for k, v in r3.sess.asserts.items() if k.startswith("seg.")})
            sh.count("c07.fragment_cases")
            if r3.sess.unrec:
                sh.count("c07.unrecognised_events", len(r3.sess.unrec))
                sh.count("c07.unrecognised_implies_fatal")
                sh.tally("fragment_outcomes", "unrecognised->" + r3.outcome)
                if r3.outcome == "ok":
                    sh.violation("unrecognised_dropped", (frag, "end" if where["at_end"] else "middle"), c3,
                                 {"fragment": frag, "where": where, "status": r3.status, "first": r3.sess.unrec[0]})
            else:
                sh.tally("fragment_outcomes", "absorbed->" + r3.outcome + ("/" + str(r3.status) if r3.outcome == "ok" else ""))
                if r3.outcome == "crash":
                    sh.sample({"crash_in_fragment_case_judged_by_C05": str(r3.detail), "fragment": frag, "name": base.name, "src": s3}, cap=6)
            pipework.monitor_failures(sh, r3, c3, seg=True)
        sh.sample({"name": p.name, "ir_lines": len(p.lines), "statements_seen": len(r.sess.stmts)}, cap=1)
    return sh


CLOSINGS = ["};", "}\tname;", "}\tt_name;", "} typedef t_name;", "} __attribute__((packed)) t_name;", "}\t*t_p;", "}\tname[2];",
            "} static g_x;", "} const name;", "}\tt_name, *t_ptr;", "} t_name;", "}t_name;"]
TYPE_HEADS = ["struct s_a", "typedef struct s_a", "union u_a", "typedef union u_a", "enum e_a", "typedef enum e_a", "struct", "typedef struct",
              "static struct s_a", "typedef enum"]


def run_closings(spec):
    """every way of closing the body of a type definition the rules know, followed by a function: whatever the
    diagnostics are, the nesting depth is back at file level after the closing line and at the end of the file, and
    the function after it is examined as a function"""
    sh = Shard(max_per_sig=3)
    for h in TYPE_HEADS:
        for c in CLOSINGS:
            for brace_on_head in (False, True):
                body = "\tA,\n\tB\n" if "enum" in h else "\tint\ta;\n\tchar\tb;\n"
                src = (h + " {\n" if brace_on_head else h + "\n{\n") + body + c + "\n\nint\tmain(void)\n{\n\treturn (0);\n}\n"
                for name in ("t.c", "t.h"):
                    r = core.api_run(name, src, clock=False)
                    case = {"name": name, "src": src, "mode": "api", "closing": c, "head": h}
                    sh.case(name + "\0" + src)
                    sh.tally("runs", "type_closing")
                    pipework.monitor_failures(sh, r, case, seg=True)
                    sh.add_asserts({k: v for k, v in r.sess.asserts.items() if k.startswith("seg.")})
                    if r.outcome != "ok":
                        # valid C: a fatal diagnostic here means text was left over by a statement cut in the wrong place
                        sh.tally("fragment_outcomes", "type_closing->" + r.outcome)
                        sh.violation("valid_type_definition_not_analysed", (c, r.outcome), case, {"closing": c, "head": h, "why": str(r.detail)[:160]})
                        continue
                    sh.count("c07.global_scope_at_end_of_file")
                    st = r.sess.stmts
                    if not st or st[-1][7] != ("GlobalScope", 0):
                        sh.violation("scope_at_end_of_file", (str(st[-1][7]) if st else "-", "type_closing"), case,
                                     {"scope_after": st[-1][7] if st else None, "closing": c, "head": h})
                    sh.count("c07.function_after_type_is_examined_as_a_function")
                    if not any(x[0] == "IsFuncDeclaration" for x in st):
                        sh.violation("function_not_recognised_after_type", (c,), case, {"closing": c, "head": h, "rules": [x[0] for x in st][-6:]})
    return sh


def run_decls(spec):
    """declaration-shaped statements in random order (G-DECL): the segmentation monitors on whatever the rules make
    of them - every matched statement claims >= 1 token, the registry pops what was claimed, statements tile the
    token list, an unrecognised token ends in the fatal diagnostic"""
    from nv.gen import decls
    sh = Shard(max_per_sig=3)
    r = random.Random("c07decls/%s/%d" % (spec["seed"], spec["shard"]))
    for _ in range(spec["n"]):
        name, src = decls.source(r)
        run = core.api_run(name, src, clock=False)
        case = {"name": name, "src": src, "mode": "api"}
        sh.case(name + "\0" + src, nontrivial=len(run.sess.stmts) >= 2)
        sh.tally("runs", "decl_shaped")
        sh.add_asserts({k: v for k, v in run.sess.asserts.items() if k.startswith("seg.")})
        pipework.monitor_failures(sh, run, case, seg=True)
        if run.sess.unrec:
            sh.count("c07.unrecognised_events", len(run.sess.unrec))
            sh.count("c07.unrecognised_implies_fatal")
            if run.outcome == "ok":
                sh.violation("unrecognised_dropped", ("decl_shaped",), case, {"status": run.status, "first": run.sess.unrec[0]})
    return sh


def run_cli(spec):
    """CLI view: a run in which the monitor saw an unrecognised token prints the fatal form and exits non-zero"""
    sh = Shard()
    rng = random.Random("c07cli/%s/%d" % (spec["seed"], spec["shard"]))
    tmp = tempfile.mkdtemp(prefix="nv_c07_")
    try:
        for k, (p, tag) in enumerate(pipework.base_programs({"seed": spec["seed"], "shard": 500 + spec["shard"], "n": spec["n"]})):
            s3, frag, where = insert_fragment(p, rng)
            d = os.path.join(tmp, "d%d" % k)
            os.mkdir(d)
            with open(os.path.join(d, p.name), "w") as f:
                f.write(s3)
            r = cliobs.run_cli(["--no-colors", p.name], cwd=d)
            sh.case("cli\0" + s3)
            sh.tally("runs", "cli_fragment")
            if r.timeout or r.trace is None:
                sh.inconclusive.append("CLI run gave no trace")
                continue
            files = r.trace.get("files", [])
            unrec = sum(f.get("unrecognised", 0) or 0 for f in files)
            if unrec:
                sh.count("c07.cli_unrecognised_implies_fatal_form")
                # the file is named, not reported OK, and the status is non-zero (the wording is the tool's business)
                fatal_form = p.name in r.stdout + r.stderr and (p.name + ": OK!") not in r.stdout
                if r.rc in (0, None) or not fatal_form or r.traceback():
                    sh.violation("cli_unrecognised_not_fatal", (frag,), {"mode": "cli", "name": p.name, "src": s3},
                                 {"fragment": frag, "rc": r.rc, "stdout": r.stdout[-300:], "stderr": r.stderr[-300:]})
                sh.count("c07.cli_no_verdict_for_a_dropped_file")
            shutil.rmtree(d, ignore_errors=True)
    finally:
        shutil.rmtree(tmp, ignore_errors=True)
    return sh


def run_shard(spec):
    if spec["mode"] == "closings":
        return run_closings(spec).result()
    if spec["mode"] == "decls":
        return run_decls(spec).result()
    if spec["mode"] == "cli":
        return run_cli(spec).result()
    return run_programs(spec).result()


def replay(case, sh):
    if case.get("mode") == "cli":
        tmp = tempfile.mkdtemp(prefix="nv_c07r_")
        try:
            with open(os.path.join(tmp, case["name"]), "w") as f:
                f.write(case["src"])
            r = cliobs.run_cli(["--no-colors", case["name"]], cwd=tmp)
            sh.evaluations += 1
            unrec = sum(f.get("unrecognised", 0) or 0 for f in (r.trace or {}).get("files", []))
            if unrec and (r.rc in (0, None) or (case["name"] + ": OK!") in r.stdout):
                sh.violation("cli_unrecognised_not_fatal", ("replay",), case, {"rc": r.rc, "stdout": r.stdout[-300:]})
        finally:
            shutil.rmtree(tmp, ignore_errors=True)
        return
    r = core.api_run(case["name"], case["src"], clock=False)
    sh.evaluations += 1
    pipework.monitor_failures(sh, r, case, seg=True)
    if r.sess.unrec and r.outcome == "ok":
        sh.violation("unrecognised_dropped", (case.get("fragment"),), case, {"status": r.status, "first": r.sess.unrec[0]})
    if case.get("closing") and r.outcome != "ok":
        sh.violation("valid_type_definition_not_analysed", ("replay",), case, {})
    if case.get("closing") and r.outcome == "ok":
        st = r.sess.stmts
        if not st or st[-1][7] != ("GlobalScope", 0):
            sh.violation("scope_at_end_of_file", ("replay",), case, {})
        if not any(x[0] == "IsFuncDeclaration" for x in st):
            sh.violation("function_not_recognised_after_type", ("replay",), case, {})
    if case.get("conforming") and r.outcome == "ok":
        from nv.gen.ir import Prog, Line
        p = Prog(case["name"], [Line("raw", [("x", "raw")]) for _ in range(case.get("ir_lines", 0))])
        check_conforming(sh, p, r, case)


def finish(merged, tier, seed):
    a = merged["asserts"]
    inc = []
    if a.get("c07.unrecognised_events", 0) < 200:
        inc.append("only %d unrecognised events produced" % a.get("c07.unrecognised_events", 0))
    if a.get("seg.tiling", 0) < 1000:
        inc.append("tiling asserted on only %d runs" % a.get("seg.tiling", 0))
    if a.get("c07.statement_count_equals_line_count", 0) < 200:
        inc.append("statement count checked on only %d conforming files" % a.get("c07.statement_count_equals_line_count", 0))
    return {"inconclusive": inc,
            "coverage": {"runs": merged["cov"].get("runs"), "fragment_outcomes": merged["cov"].get("fragment_outcomes"),
                         "fragments": len(FRAGMENTS)},
            "summary": ["runs %s; fragment outcomes %s" % (merged["cov"].get("runs"), merged["cov"].get("fragment_outcomes"))]}
