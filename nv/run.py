"""Runner: shards, workers, verdicts, evidence, replay files (DESIGN §3.4-3.6)."""
import concurrent.futures
import hashlib
import importlib
import json
import os
import subprocess
import sys
import tempfile
import time

ROOT = os.path.dirname(os.path.dirname(os.path.abspath(__file__)))
REPO = os.environ.get("NV_REPO", "/repo")
PY = os.environ.get("NV_PYTHON", "/venv/bin/python")
NPROC = int(os.environ.get("NV_JOBS", "16"))


def env_for_worker(extra=None):
    env = dict(os.environ)
    env["PYTHONPATH"] = REPO + ":" + ROOT
    env["PYTHONDONTWRITEBYTECODE"] = "1"
    env["PYTHONHASHSEED"] = "0"
    env["NORMINETTE_VERIF"] = "1"        # in-tree hooks (lexer cursor, unsorted diagnostics) are guarded by it
    if extra:
        env.update(extra)
    return env


def sha(obj):
    return hashlib.sha1(json.dumps(obj, sort_keys=True, default=str).encode()).hexdigest()


def h8(s):
    if not isinstance(s, (bytes, bytearray)):
        s = str(s).encode("utf-8", "surrogatepass")
    return hashlib.blake2b(s, digest_size=6).hexdigest()


def load_check(pid):
    return importlib.import_module("nv.checks." + pid.lower())


# ------------------------------------------------------------------ merging

def merge_into(acc, part):
    """counters add, lists of scalars union (sorted), dicts recurse"""
    for k, v in part.items():
        if k not in acc:
            acc[k] = v if not isinstance(v, dict) else merge_into({}, v)
            continue
        a = acc[k]
        if isinstance(v, bool) or isinstance(a, bool):
            acc[k] = bool(a) and bool(v)
        elif isinstance(v, (int, float)) and isinstance(a, (int, float)):
            acc[k] = a + v
        elif isinstance(v, dict) and isinstance(a, dict):
            merge_into(a, v)
        elif isinstance(v, list) and isinstance(a, list):
            try:
                acc[k] = sorted(set(a) | set(v))
            except TypeError:
                acc[k] = a + v
        else:
            acc[k] = v
    return acc


class Shard:
    """accumulator used by run_shard implementations"""

    def __init__(self, max_per_sig=5, max_total=400):
        self.evaluations = 0
        self.keys = set()          # h8 of distinct non-trivial cases
        self.violations = []
        self._sigcount = {}
        self.sig_totals = {}
        self.asserts = {}
        self.cov = {}
        self.samples = []
        self.inconclusive = []
        self.max_per_sig = max_per_sig
        self.max_total = max_total

    def case(self, key=None, nontrivial=True):
        self.evaluations += 1
        if nontrivial and key is not None:
            self.keys.add(h8(key))

    def violation(self, kind, sig, case, detail=None):
        sig = [kind] + [str(x) for x in sig]
        k = "|".join(sig)
        self.sig_totals[k] = self.sig_totals.get(k, 0) + 1
        n = self._sigcount.get(k, 0)
        if n >= self.max_per_sig or len(self.violations) >= self.max_total:
            return
        self._sigcount[k] = n + 1
        self.violations.append({"kind": kind, "sig": sig, "case": case, "detail": detail})

    def add_asserts(self, d):
        for k, v in d.items():
            self.asserts[k] = self.asserts.get(k, 0) + v

    def count(self, name, n=1):
        self.asserts[name] = self.asserts.get(name, 0) + n

    def cover(self, group, item):
        self.cov.setdefault(group, set()).add(item)

    def tally(self, group, item, n=1):
        d = self.cov.setdefault(group, {})
        d[item] = d.get(item, 0) + n

    def sample(self, obj, cap=3):
        if len(self.samples) < cap:
            self.samples.append(obj)

    def result(self):
        cov = {}
        for k, v in self.cov.items():
            cov[k] = sorted(v) if isinstance(v, set) else v
        return {"evaluations": self.evaluations, "keys": sorted(self.keys), "violations": self.violations,
                "sig_totals": self.sig_totals, "asserts": self.asserts, "cov": cov, "samples": self.samples,
                "inconclusive": self.inconclusive}


# ------------------------------------------------------------------ workers

def _run_worker(pid, spec, timeout, tmpdir, idx):
    specf = os.path.join(tmpdir, "spec_%d.json" % idx)
    outf = os.path.join(tmpdir, "out_%d.json" % idx)
    with open(specf, "w") as f:
        json.dump(spec, f)
    cmd = [PY, "-X", "faulthandler", "-m", "nv.worker", pid, specf, outf]
    t0 = time.time()
    try:
        p = subprocess.run(cmd, env=env_for_worker(), cwd=ROOT, stdout=subprocess.PIPE, stderr=subprocess.PIPE,
                           timeout=timeout)
    except subprocess.TimeoutExpired as e:
        return {"inconclusive": ["worker %d hit the wall-clock watchdog (%ds)" % (idx, timeout)],
                "stderr": (e.stderr or b"").decode("utf-8", "replace")[-2000:]}
    if p.returncode != 0 or not os.path.exists(outf):
        return {"inconclusive": ["worker %d exited with status %s" % (idx, p.returncode)],
                "stderr": p.stderr.decode("utf-8", "replace")[-3000:]}
    with open(outf) as f:
        res = json.load(f)
    res["wall"] = time.time() - t0
    os.unlink(outf)
    os.unlink(specf)
    return res


def run_check(pid, tier, seed, replay=None):
    from nv import findings
    t0 = time.time()
    mod = load_check(pid)
    if replay:
        with open(replay) as f:
            doc = json.load(f)
        viols = run_inline(pid, {"replay": doc["case"]})
        print(json.dumps({"replayed": replay, "violations": viols}, indent=1, default=str)[:6000])
        return 1 if viols else 0

    specs = mod.plan(tier, seed)
    timeout = getattr(mod, "WORKER_TIMEOUT", {}).get(tier, 900 if tier == "quick" else 7200)
    merged = {"evaluations": 0, "keys": set(), "violations": [], "sig_totals": {}, "asserts": {}, "cov": {},
              "samples": [], "inconclusive": []}
    tmpdir = tempfile.mkdtemp(prefix="nv_%s_" % pid)
    stderr_tail = []
    try:
        with concurrent.futures.ThreadPoolExecutor(max_workers=NPROC) as ex:
            futs = [ex.submit(_run_worker, pid, spec, timeout, tmpdir, i) for i, spec in enumerate(specs)]
            for fu in futs:
                res = fu.result()
                merged["evaluations"] += res.get("evaluations", 0)
                merged["keys"].update(res.get("keys", []))
                merged["violations"] += res.get("violations", [])
                merge_into(merged["sig_totals"], res.get("sig_totals", {}))
                merge_into(merged["asserts"], res.get("asserts", {}))
                merge_into(merged["cov"], res.get("cov", {}))
                if len(merged["samples"]) < 6:
                    merged["samples"] += res.get("samples", [])[:2]
                merged["inconclusive"] += res.get("inconclusive", [])
                if res.get("stderr"):
                    stderr_tail.append(res["stderr"])
    finally:
        try:
            for fn in os.listdir(tmpdir):
                os.unlink(os.path.join(tmpdir, fn))
            os.rmdir(tmpdir)
        except OSError:
            pass

    # witnesses of recorded findings (known -> KNOWN-FINDING line; fixed -> regression case)
    known_lines = []
    entries = findings.entries_for(pid)
    with concurrent.futures.ThreadPoolExecutor(max_workers=NPROC) as ex:
        wfuts = {ent["id"]: ex.submit(run_inline, ent["witness"].get("check", pid), {"replay": ent["witness"]["case"]})
                 for ent in entries if ent.get("witness") and ent["witness"].get("check", pid) == pid}
    for ent in entries:
        w = ent.get("witness")
        if not w or ent["id"] not in wfuts:
            continue
        viols = wfuts[ent["id"]].result()
        blind = [v for v in viols if v["kind"] == "replay_inconclusive"]
        if blind:
            merged["inconclusive"].append("witness of %s could not be replayed: %s" % (
                ent["id"], str(blind[0]["detail"].get("inconclusive"))[:200]))
            continue
        hit = [v for v in viols if findings.predicate_holds(ent, v)]
        if ent["status"] == "known":
            if hit:
                known_lines.append((ent["id"], ent["what"]))
        else:
            for v in viols:
                v = dict(v)
                v["regression_of"] = ent["id"]
                merged["violations"].append(v)

    # offline part of the check
    fin = mod.finish(merged, tier, seed) if hasattr(mod, "finish") else {}
    merged["inconclusive"] += fin.get("inconclusive", [])

    # classify violations
    unknown = []
    known_hits = {}
    for v in merged["violations"]:
        ent = None if v.get("regression_of") else findings.match(pid, v)
        if ent is None:
            unknown.append(v)
        else:
            known_hits[ent["id"]] = known_hits.get(ent["id"], 0) + 1
            if (ent["id"], ent["what"]) not in known_lines:
                known_lines.append((ent["id"], ent["what"]))

    # replay files
    outdir = os.path.join(ROOT, "out", "replay", pid)
    lines = []
    seen = set()
    for v in unknown:
        k = "|".join(v["sig"])
        if k in seen:
            continue
        seen.add(k)
        os.makedirs(outdir, exist_ok=True)
        path = os.path.join(outdir, sha(v)[:16] + ".json")
        with open(path, "w") as f:
            json.dump({"property": pid, "tier": tier, "seed": seed, "sig": v["sig"], "case": v["case"],
                       "detail": v.get("detail"), "regression_of": v.get("regression_of")}, f, indent=1, default=str)
        lines.append("VIOLATION property=%s replay=%s" % (pid, os.path.relpath(path, ROOT)))

    wall = time.time() - t0
    cov = fin.get("coverage", {})
    coverage = {
        "evaluations": merged["evaluations"],
        "distinct_nontrivial": len(merged["keys"]),
        "rule": getattr(mod, "RULE", ""),
        "samples": (fin.get("samples") or merged["samples"])[:6] or ["(no sample recorded)"],
        "exhaustive": bool(fin.get("exhaustive", False)),
        "monitor_assertions": merged["asserts"],
        "known_findings_hit": known_hits,
        "violation_signatures": {k: n for k, n in sorted(merged["sig_totals"].items())[:60]},
        "workers": len(specs),
    }
    coverage.update(cov)
    ev = {
        "property_id": pid, "tier": tier, "seed": seed, "level": getattr(mod, "LEVEL", "exploration"),
        "coverage": coverage,
        "assumptions": getattr(mod, "ASSUMPTIONS", []),
        "wall_s": round(wall, 2),
        "violations": len(seen),
    }
    if merged["inconclusive"]:
        ev["coverage"]["inconclusive"] = merged["inconclusive"][:10]
    os.makedirs(os.path.join(ROOT, "evidence"), exist_ok=True)
    with open(os.path.join(ROOT, "evidence", pid + ".json"), "w") as f:
        json.dump(ev, f, indent=1, default=str)
        f.write("\n")

    for fid, what in sorted(set(known_lines)):
        print("KNOWN-FINDING: property=%s id=%s %s" % (pid, fid, what))
    print("%s tier=%s seed=%d evaluations=%d distinct_nontrivial=%d violations=%d known=%s wall=%.1fs" % (
        pid, tier, seed, merged["evaluations"], len(merged["keys"]), len(seen), known_hits, wall))
    for k in sorted(merged["asserts"]):
        print("  monitor %-40s %d" % (k, merged["asserts"][k]))
    for l in fin.get("summary", []):
        print("  " + l)
    if lines:
        for l in lines[:20]:
            print(l)
        for v in unknown[:8]:
            print("  -> %s %s" % ("|".join(v["sig"]), json.dumps(v.get("detail"), default=str)[:400]))
        return 1
    if merged["inconclusive"]:
        for r in merged["inconclusive"][:5]:
            print("INCONCLUSIVE property=%s reason=%s" % (pid, r))
        for s in stderr_tail[:2]:
            sys.stderr.write(s + "\n")
        return 2
    return 0


def run_inline(pid, spec):
    """run one spec of check `pid` in a fresh worker and return its violations"""
    tmpdir = tempfile.mkdtemp(prefix="nv_inl_")
    try:
        res = _run_worker(pid, spec, 600, tmpdir, 0)
    finally:
        try:
            for fn in os.listdir(tmpdir):
                os.unlink(os.path.join(tmpdir, fn))
            os.rmdir(tmpdir)
        except OSError:
            pass
    if res.get("inconclusive") and not res.get("violations"):
        return [{"kind": "replay_inconclusive", "sig": ["replay_inconclusive"], "case": spec,
                 "detail": {"inconclusive": res.get("inconclusive"), "stderr": res.get("stderr", "")[-400:]}}]
    return res.get("violations", [])
