"""Shared machinery of the relational checks (C12, C13, C14, C17, C18, C19):
a corpus of conforming / violating programs as IR, observations, comparison."""
import random

from nv import core, pipework
from nv.gen import conf, viol
from nv.run import Shard


def obs_of(name, src):
    """observation of one monitored run: ('ok', status, sorted diags) | (outcome, detail)"""
    r = core.api_run(name, src, clock=False)
    if r.outcome == "ok":
        return ("ok", r.status, sorted(r.diags)), r
    if r.outcome == "fatal":
        return ("fatal", None, None), r
    return (r.outcome, str(r.detail), None), r


def corpus(spec, header=True, nvar=3, kinds=("c", "h"), force=()):
    """(prog, tag): each conforming program of the shard followed by nvar one-violation variants"""
    rng = random.Random("rel/%s/%d" % (spec["seed"], spec["shard"]))
    for k in range(spec["n"]):
        s = pipework.prog_seed(spec, k)
        kind = kinds[1] if len(kinds) > 1 and k % 3 == 2 else kinds[0]
        p = conf.make(s, kind, header=header)
        yield p, "conf:" + kind
        # cycle the operators from the top of the file: short programs with an early violation site included
        for q, o, exp in pipework.sampled_variants(p, rng, nvar):
            q.meta["op"] = o["id"]
            yield q, "viol:" + o["id"]
        for vid in force:
            ops = [o for o in viol.OPS if o["id"] == vid]
            for q, o, exp in pipework.variants(p, rng, per_op=1, ops=ops):
                q.meta["op"] = o["id"]
                yield q, "viol:" + o["id"]


def diff(a, b, cap=4):
    """what differs between two observations (for reports)"""
    if a[0] != "ok" or b[0] != "ok":
        return {"a": a[:2], "b": b[:2]}
    sa, sb = set(a[2]), set(b[2])
    return {"status": [a[1], b[1]], "only_a": sorted(sa - sb)[:cap], "only_b": sorted(sb - sa)[:cap]}


def sig_of_diff(d):
    codes = sorted(set([x[0] for x in d.get("only_a", [])] + [x[0] for x in d.get("only_b", [])]))
    return tuple(codes[:3]) if codes else ("outcome",)
