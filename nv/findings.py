"""Known findings: committed list + mechanism predicates (DESIGN §3.6, §5.1).

A predicate looks only at the *structure* of a failing case (its signature and
the fields the check put into `detail`) - never at hashes, seeds or names.
"""
import json
import os
import re

ROOT = os.path.dirname(os.path.dirname(os.path.abspath(__file__)))
_cache = [None]


def load():
    if _cache[0] is None:
        p = os.path.join(ROOT, "known_findings.json")
        if os.path.exists(p):
            with open(p) as f:
                _cache[0] = json.load(f)["findings"]
        else:
            _cache[0] = []
    return _cache[0]


def entries_for(pid):
    return [e for e in load() if pid in e.get("properties", [e.get("property")])]


PREDICATES = {}


def predicate(name):
    def deco(f):
        PREDICATES[name] = f
        return f
    return deco


def predicate_holds(ent, v):
    m = ent["mechanism"]
    f = PREDICATES.get(m["predicate"])
    if f is None:
        return False
    try:
        return bool(f(v, **m.get("params", {})))
    except (KeyError, IndexError, TypeError, AttributeError):
        return False


def match(pid, v):
    for ent in entries_for(pid):
        if ent["status"] != "known":
            continue
        if predicate_holds(ent, v):
            return ent
    return None


# ------------------------------------------------------------------ predicates

@predicate("sig_prefix")
def _sig_prefix(v, prefix):
    """violation signature starts with the given components"""
    return v["sig"][:len(prefix)] == [str(x) for x in prefix]


@predicate("sig_regex")
def _sig_regex(v, pattern):
    return re.fullmatch(pattern, "|".join(v["sig"])) is not None


@predicate("detail_fields")
def _detail_fields(v, kind, fields):
    """kind matches and every listed detail field equals / is in the given value(s)"""
    if v["kind"] != kind:
        return False
    d = v.get("detail") or {}
    for k, want in fields.items():
        got = d.get(k)
        if isinstance(want, list):
            if got not in want:
                return False
        elif got != want:
            return False
    return True


@predicate("detail_fields_min")
def _detail_fields_min(v, kind, fields, minimum):
    """like detail_fields, plus numeric detail fields that must reach a minimum"""
    if not _detail_fields(v, kind, fields):
        return False
    d = v.get("detail") or {}
    for k, m in minimum.items():
        if not isinstance(d.get(k), (int, float)) or d[k] < m:
            return False
    return True
