"""Known findings: committed list + mechanism predicates (DESIGN §3.6, §5.1).

A predicate looks only at the *structure* of a failing case (its signature and
the fields the check put into `detail`) - never at hashes, seeds or names.
"""
import json
import os
import re

ROOT = os.path.dirname(os.path.dirname(os.path.abspath(__file__)))
_cache = [None]


def load():
    if _cache[0] is None:
        p = os.path.join(ROOT, "known_findings.json")
        if os.path.exists(p):
            with open(p) as f:
                _cache[0] = json.load(f)["findings"]
        else:
            _cache[0] = []
    return _cache[0]


def entries_for(pid):
    return [e for e in load() if pid in e.get("properties", [e.get("property")])]


PREDICATES = {}


def predicate(name):
    def deco(f):
        PREDICATES[name] = f
        return f
    return deco


def predicate_holds(ent, v):
    m = ent["mechanism"]
    f = PREDICATES.get(m["predicate"])
    if f is None:
        return False
    try:
        return bool(f(v, **m.get("params", {})))
    except (KeyError, IndexError, TypeError, AttributeError):
        return False


def match(pid, v):
    for ent in entries_for(pid):
        if ent["status"] != "known":
            continue
        if predicate_holds(ent, v):
            return ent
    return None


# ------------------------------------------------------------------ predicates

@predicate("sig_prefix")
def _sig_prefix(v, prefix):
    """violation signature starts with the given components"""
    return v["sig"][:len(prefix)] == [str(x) for x in prefix]


@predicate("sig_regex")
def _sig_regex(v, pattern):
    return re.fullmatch(pattern, "|".join(v["sig"])) is not None


@predicate("detail_fields")
def _detail_fields(v, kind, fields):
    """kind matches and every listed detail field equals / is in the given value(s)"""
    if v["kind"] != kind:
        return False
    d = v.get("detail") or {}
    for k, want in fields.items():
        got = d.get(k)
        if isinstance(want, list):
            if got not in want:
                return False
        elif got != want:
            return False
    return True


@predicate("detail_fields_min")
def _detail_fields_min(v, kind, fields, minimum):
    """like detail_fields, plus numeric detail fields that must reach a minimum"""
    if not _detail_fields(v, kind, fields):
        return False
    d = v.get("detail") or {}
    for k, m in minimum.items():
        if not isinstance(d.get(k), (int, float)) or d[k] < m:
            return False
    return True


def _match_open(segs, k):
    """index of the '(' matching the ')' at k"""
    depth = 0
    for q in range(k, -1, -1):
        t, c = segs[q]
        if c.startswith("punct"):
            if t == ")":
                depth += 1
            elif t == "(":
                depth -= 1
                if depth == 0:
                    return q
    return None


@predicate("star_after_call_with_leading_cast")
def _star_after_call_with_leading_cast(v, codes):
    """C01: a binary `*` right after the `)` of a call whose first argument starts with a cast or with `sizeof(type *)`"""
    d = v.get("detail") or {}
    if v["kind"] != "false_positive" or d.get("code") not in codes or d.get("seg") != "*" or d.get("cls") != "op:bin":
        return False
    segs = [tuple(x) for x in d["segs"]]
    j = d["seg_index"]
    k = j - 1
    while k >= 0 and segs[k][1].startswith("ws"):
        k -= 1
    if k < 0 or segs[k] != (")", "punct"):
        return False
    o = _match_open(segs, k)
    if o is None or o == 0 or segs[o - 1][1] != "id:func":
        return False
    a = o + 1
    in_sizeof = segs[a] == ("sizeof", "kw")
    if in_sizeof:
        a += 1
    if segs[a] != ("(", "punct"):
        return False
    # the inner parenthesis must be closed by a cast parenthesis, or be the operand of sizeof and end in a pointer star
    for q in range(a + 1, k):
        if segs[q][0] == ")":
            if segs[q][1] == "punct:cast":
                return True
            b = q - 1
            while b > a and segs[b][1].startswith("ws"):
                b -= 1
            return in_sizeof and segs[b][1] == "op:ptr"
    return False


@predicate("pair_in_table")
def _pair_in_table(v, op, pairs):
    """C02: operator `op` missed at a site whose (operator text, next token) is in the recorded table"""
    d = v.get("detail") or {}
    if v["kind"] != "missed" or d.get("op") != op:
        return False
    return [d.get("site_op"), d.get("site_next")] in pairs


@predicate("member_call_statement_with_incdec_and_comma")
def _member_call_incdec(v):
    """C01: the offending line is a call *statement* through a struct member, `p->f(--x, y);` / `s.f(x++, y);`,
    whose argument list holds ++ or -- and a comma (IsAssignation takes the ++/-- for an assignment operator and
    ends the statement at the first comma)"""
    d = v.get("detail") or {}
    if v["kind"] not in ("not_analysed", "false_positive", "member_call_statement_cut_at_comma"):
        return False
    segs = [tuple(x) for x in d.get("segs") or []]
    return f60_shape(segs)


def f60_shape(segs):
    k = 0
    while k < len(segs) and segs[k][1].startswith("ws"):
        k += 1
    if len(segs) < k + 5:
        return False
    if segs[k] == ("(", "punct") and segs[k + 1][0] == "*" and segs[k + 2][1].startswith("id:") and segs[k + 3] == (")", "punct"):
        j = k + 4           # (*f)(...)
    elif segs[k][1] == "id:var" and segs[k + 1][1] == "op:member" and segs[k + 2][1] == "id:member":
        j = k + 3
        while j + 1 < len(segs) and segs[j][1] == "op:member" and segs[j + 1][1] == "id:member":
            j += 2
    else:
        return False
    if j >= len(segs) or segs[j] != ("(", "punct"):
        return False
    rest = segs[j:]
    n_incdec = sum(1 for _, c in rest if c == "op:incdec")
    has_comma = any(c == "op:comma" for _, c in rest)
    # one ++/-- and no comma parses (as an "assignment"); a comma cuts the statement, a second ++/-- is a "multiple assignment"
    return n_incdec >= 1 and (has_comma or n_incdec >= 2) and segs[-1] == (";", "punct")
