"""Program workloads shared by the pipeline checks: generated conforming files,
their one-violation variants, and the monitored runs over them."""
import random

from nv import core, mon
from nv.gen import conf, viol
from nv.run import Shard


def plan_programs(tier, seed, prop, nshards=16, per_shard=100, **extra):
    specs = []
    for i in range(nshards):
        d = {"mode": "programs", "seed": seed, "shard": i, "nshards": nshards, "n": per_shard, "tier": tier}
        d.update(extra)
        specs.append(d)
    return specs


def prog_seed(spec, k):
    return "%s/%d/%d" % (spec["seed"], spec["shard"], k)


def base_programs(spec, header=True, kinds=("c", "h")):
    """(prog, tag) conforming programs of this shard"""
    for k in range(spec["n"]):
        s = prog_seed(spec, k)
        kind = kinds[k % len(kinds)] if len(kinds) > 1 and k % 3 == 2 else kinds[0]
        # two thirds .c, one third .h
        p = conf.make(s, kind, header=header)
        yield p, "%s:%s" % (kind, s)


def variants(p, rng, per_op=1, ops=None, all_sites=False):
    """(variant prog, op, expected line) for each operator of the catalogue"""
    for o in (ops or viol.OPS):
        ss = viol.sites(p, o)
        if not ss:
            continue
        if not all_sites:
            rng.shuffle(ss)
        n = 0
        for i in ss:
            if not all_sites and n >= per_op:
                break
            res = viol.apply(p, o, i, rng)
            if res is None:
                continue
            n += 1
            yield res[0], o, res[1]


def sampled_variants(p, rng, k):
    """k variants from random operators (used by relational checks)"""
    ops = list(viol.OPS)
    rng.shuffle(ops)
    n = 0
    for o in ops:
        if n >= k:
            break
        ss = viol.sites(p, o)
        rng.shuffle(ss)
        for i in ss[:4]:
            res = viol.apply(p, o, i, rng)
            if res is not None:
                yield res[0], o, res[1]
                n += 1
                break


def monitor_failures(sh, r, case, kinds_lex=(), seg=False, diag=False):
    """turn monitor assertion failures of a run into violations"""
    s = r.sess
    for fl in s.lex_fail:
        if fl[0] in kinds_lex:
            sh.violation(fl[0], fl[1:2], case, {"fail": fl})
    if seg:
        for fl in s.seg_fail:
            sh.violation(fl[0], fl[1:2], case, {"fail": fl})
    if diag:
        for fl in s.diag_fail:
            sh.violation(fl[0], fl[1:2], case, {"fail": fl, "code": fl[1], "emitter": fl[-1]})


# ------------------------------------------------------------------ C09 pipeline part

RULE_POS_EXEMPT = {
    # the long-comment rule points at column 1 of the offending interior line (DESIGN §4.9)
    ("LINE_TOO_LONG", "CheckCommentLineLen"),
}


def check_diag_positions(sh, r, case):
    toks = r.sess.tokens
    positions = set(t[2] for t in toks)
    for d in r.sess.diags:
        em = d["emitter"]
        if not (em.startswith("Check") or em.startswith("Is")):
            continue
        if (d["code"], em) in RULE_POS_EXEMPT:
            continue
        if not d["hl"]:
            continue
        sh.count("diag.highlight_is_token_position")
        pos = (d["hl"][0][0], d["hl"][0][1])
        if pos not in positions:
            sh.violation("DIAG_POS", (d["code"], em), case, {"code": d["code"], "emitter": em, "pos": pos})


def run_positions(spec):
    sh = Shard()
    rng = random.Random("pos/" + prog_seed(spec, -1))
    for p, tag in base_programs(spec):
        progs = [(p, tag)] + [(q, tag + "+" + o["name"]) for q, o, _ in sampled_variants(p, rng, 3)]
        for q, t in progs:
            src = q.text()
            case = {"name": q.name, "src": src, "mode": "api", "tag": t}
            r = core.api_run(q.name, src, want_tokens=True, clock=False)
            sh.case(src, nontrivial=len(r.sess.tokens) > 10)
            sh.add_asserts({k: v for k, v in r.sess.asserts.items() if k.startswith("lex.")})
            monitor_failures(sh, r, case, kinds_lex=("POS", "BADLEX_POS"))
            for t_ in r.sess.tokens:
                sh.cover("token_types", t_[0])
            check_diag_positions(sh, r, case)
            sh.tally("outcomes", "program:" + r.outcome)
        sh.sample({"name": p.name, "src_head": p.text()[900:1300]}, cap=1)
    return sh


def replay_positions(case, sh):
    r = core.api_run(case["name"], case["src"], want_tokens=True, clock=False)
    sh.evaluations += 1
    monitor_failures(sh, r, case, kinds_lex=("POS", "BADLEX_POS"))
    check_diag_positions(sh, r, case)
