"""reference observation: analyse ONE file in a fresh process (python -m nv.obsone < json)"""
import json
import sys


def main():
    req = json.load(sys.stdin)
    from nv import core
    core.assert_repo()
    out = []
    for name, src in req["files"]:
        r = core.api_run(name, src, clock=False, keep_limit=True)
        out.append(_obs(r))
        if req.get("alone", True):
            break
    json.dump(out, sys.stdout)


def _obs(r):
    if r.outcome == "ok":
        return ["ok", r.status, sorted([list(d) for d in r.diags])]
    if r.outcome == "fatal":
        return ["fatal", None, None]
    return [r.outcome, str(r.detail), None]


if __name__ == "__main__":
    main()
