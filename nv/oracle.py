"""Independent reference code (DESIGN §3.3).  Nothing here imports norminette.

refpos / vis_width / normalise recompute from the raw text what the lexer is
supposed to compute with its private counters; header42 re-implements the vim
stdheader template; the report parsers read what the CLI printed.
"""
import json
import re

TRIGRAPHS = {
    "??<": "{", "??>": "}", "??(": "[", "??)": "]", "??=": "#",
    "??/": "\\", "??'": "^", "??!": "|", "??-": "~",
}
DIGRAPHS = {"<%": "{", "%>": "}", "<:": "[", ":>": "]", "%:": "#"}


def refpos(src, offset):
    """1-based (line, visual column) of the character at raw `offset`."""
    line = src.count("\n", 0, offset) + 1
    ls = src.rfind("\n", 0, offset) + 1
    col = 1
    for ch in src[ls:offset]:
        col += (4 - (col - 1) % 4) if ch == "\t" else 1
    return (line, col)


def vis_width(s, start=0):
    """displayed width of `s` when it starts at 0-based column `start`."""
    col = start
    for ch in s:
        col += (4 - col % 4) if ch == "\t" else 1
    return col


def nlines(src):
    if src == "":
        return 1
    return src.count("\n") + (0 if src.endswith("\n") else 1)


def normalise(raw):
    """remove line splices, map trigraphs then digraphs (C translation phases
    1-2 applied to a token's raw text)."""
    out = []
    i = 0
    n = len(raw)
    while i < n:
        if raw.startswith("\\\n", i):
            i += 2
            continue
        if raw.startswith("??/\n", i):
            i += 4
            continue
        tri = raw[i:i + 3]
        if tri in TRIGRAPHS:
            out.append(TRIGRAPHS[tri])
            i += 3
            continue
        di = raw[i:i + 2]
        if di in DIGRAPHS:
            out.append(DIGRAPHS[di])
            i += 2
            continue
        out.append(raw[i])
        i += 1
    return "".join(out)


def strip_ws(s):
    return s.replace(" ", "").replace("\t", "")


# ---------------------------------------------------------------- 42 header

ART = [
    "        :::      ::::::::",
    "      :+:      :+:    :+:",
    "    +:+ +:+         +:+  ",
    "  +#+  +:+       +#+     ",
    "+#+#+#+#+#+   +#+        ",
    "     #+#    #+#          ",
    "    ###   ########.fr    ",
]


def textline(left, right):
    left = left[:80 - 10 - len(right)]
    return "/*   " + left + " " * (80 - 10 - len(left) - len(right)) + right + "   */"


def header42_lines(fname, login="marvin", mail="marvin@student.42.fr",
                   created="2024/01/01 10:00:00", updated="2024/01/02 11:30:00"):
    star = "/* " + "*" * 74 + " */"
    blank = textline("", "")
    return [
        star, blank,
        textline("", ART[0]),
        textline(fname, ART[1]),
        textline("", ART[2]),
        textline("By: %s <%s>" % (login, mail), ART[3]),
        textline("", ART[4]),
        textline("Created: %s by %s" % (created, login), ART[5]),
        textline("Updated: %s by %s" % (updated, login), ART[6]),
        blank, star,
    ]


def header42(fname, **kw):
    return "\n".join(header42_lines(fname, **kw)) + "\n"


# ---------------------------------------------------------------- report parsers

_ANSI = re.compile(r"\x1b\[[0-9;]*m")
_VERDICT = re.compile(r"^(?P<name>.*): (?P<status>OK|Error)!$")
_DIAG = re.compile(
    r"^(?P<level>Error|Notice): (?P<code>\S+) +\(line: +(?P<line>-?\d+), col: +(?P<col>-?\d+)\):\t(?P<text>.*)$")


class ReportParseError(Exception):
    pass


def parse_humanized(out):
    """-> list of {"name", "status", "diags": [(code, level, line, col, text)], "fatal": msg|None}
    strict: any line that is none of the known forms raises ReportParseError."""
    files = []
    lines = out.split("\n")
    if lines and lines[-1] == "":
        lines.pop()
    i = 0
    while i < len(lines):
        raw = lines[i]
        l = _ANSI.sub("", raw)
        m = _DIAG.match(l)
        if m and files and files[-1]["fatal"] is None:
            files[-1]["diags"].append((m["code"], m["level"], int(m["line"]), int(m["col"]), m["text"]))
            i += 1
            continue
        m = _VERDICT.match(l)
        if m:
            f = {"name": m["name"], "status": m["status"], "diags": [], "fatal": None}
            if m["status"] == "Error" and i + 1 < len(lines) and lines[i + 1].startswith("\t"):
                f["fatal"] = _ANSI.sub("", lines[i + 1][1:])
                i += 1
            files.append(f)
            i += 1
            continue
        raise ReportParseError("unexpected line %d: %r" % (i + 1, raw))
    return files


def parse_json_report(out):
    lines = [l for l in out.split("\n") if l != ""]
    if not lines:
        raise ReportParseError("empty output")
    try:
        doc = json.loads(lines[-1])
    except ValueError as e:
        raise ReportParseError("invalid JSON: %s" % e)
    files = []
    for f in doc["files"]:
        diags = []
        for e in f["errors"]:
            h = e["highlights"][0]
            diags.append((e["name"], e["level"], h["lineno"], h["column"], e["text"]))
        files.append({"path": f["path"], "name": f["path"].rsplit("/", 1)[-1], "status": f["status"],
                      "diags": diags, "fatal": None})
    return files, lines[:-1]
