"""Attaches the monitors inside `python -m norminette` children (DESIGN §3.7).
Active only when NORMINETTE_VERIF=1; dumps what it observed to $NV_TRACE."""
import os
import sys

if os.environ.get("NORMINETTE_VERIF") == "1" and os.environ.get("NV_TRACE"):
    import atexit
    import json

    _trace = {"files": [], "io": [], "recursion_limits": [], "uncaught": None, "diag_fail": [], "seg_fail": [],
              "asserts": {}}
    _skip = tuple(p for p in (sys.prefix, sys.base_prefix, os.environ.get("NV_REPO", "/repo"),
                              os.path.dirname(os.path.dirname(os.path.abspath(__file__))), "/usr/lib", "/proc") if p)

    def _audit(event, args):
        try:
            if event == "open":
                path, mode = args[0], args[1]
                if isinstance(path, (str, bytes)):
                    if isinstance(path, bytes):
                        path = path.decode("utf-8", "surrogateescape")
                    ap = os.path.abspath(path)
                    if not ap.startswith(_skip) and not ap.endswith((".pyc", ".py", ".pth")):
                        _trace["io"].append(["open", path, mode])
            elif event in ("glob.glob", "glob.glob/2"):
                _trace["io"].append([event, str(args[0])])
            elif event == "subprocess.Popen":
                _trace["io"].append(["popen", [str(a) for a in (args[1] or [])]])
            elif event == "sys.setrecursionlimit" or event == "sys._setrecursionlimit":
                _trace["recursion_limits"].append(args[0] if args else None)
        except Exception:
            pass

    sys.addaudithook(_audit)

    def _install():
        from nv import mon
        mon.install()
        from norminette.lexer.lexer import Lexer
        from norminette.registry import Registry
        sess = mon.Session(None, want_tokens=False)
        mon.CUR[0] = sess
        _trace["_sess"] = sess
        orig_init = Lexer.__init__
        orig_run = Registry.run

        def init(self, file):
            _trace["files"].append({"path": file.path, "basename": file.basename, "state": "lexing", "_file": file,
                                    "_d0": len(sess.diags)})
            return orig_init(self, file)

        def run(self, context):
            rec = None
            for r in reversed(_trace["files"]):
                if r.get("_file") is context.file:
                    rec = r
                    break
            if rec is None:
                rec = {"path": context.file.path, "basename": context.file.basename, "_file": context.file}
                _trace["files"].append(rec)
            rec["state"] = "running"
            sess.unrec = []
            try:
                res = orig_run(self, context)
                rec["state"] = "done"
                return res
            except BaseException as e:
                rec["state"] = "raised:" + type(e).__name__
                raise
            finally:
                rec["unrecognised"] = len(sess.unrec)
                rec["events"] = [[d["code"], d["level"], d["hl"][0][0] if d["hl"] else None,
                                  d["hl"][0][1] if d["hl"] else None, d["emitter"]] for d in sess.diags[rec.get("_d0", 0):]]

        Lexer.__init__ = init
        Registry.run = run

    _hooked = [False]

    class _Finder:
        """installs the wrappers right after norminette.registry is imported"""

        def find_spec(self, name, path=None, target=None):
            return None

    def _dump():
        out = dict(_trace)
        sess = out.pop("_sess", None)
        files = []
        for r in out["files"]:
            f = r.pop("_file", None)
            r.pop("_d0", None)
            if f is not None:
                try:
                    from nv import mon as _mon
                    r["status"] = f.errors.status
                    r["diags"] = [[e.name, e.level, e.highlights[0].lineno if e.highlights else None,
                                   e.highlights[0].column if e.highlights else None, e.text] for e in _mon.errors_list(f.errors)]
                except Exception as e:
                    out.setdefault("monitor_errors", []).append("dump: %r" % e)
            files.append(r)
        out["files"] = files
        if sess is not None:
            out["diag_fail"] = [list(map(str, x)) for x in sess.diag_fail]
            out["seg_fail"] = [list(map(str, x)) for x in sess.seg_fail]
            out["asserts"] = sess.asserts
        try:
            from nv import mon as _mon2
            out["monitor_errors"] = list(out.get("monitor_errors", [])) + list(_mon2.MONITOR_ERRORS)
        except Exception:
            pass
        out["recursion_limit_at_exit"] = sys.getrecursionlimit()
        try:
            with open(os.environ["NV_TRACE"], "w") as fh:
                json.dump(out, fh, default=str)
        except Exception:
            pass

    atexit.register(_dump)
    _old_hook = sys.excepthook

    def _excepthook(tp, val, tb):
        _trace["uncaught"] = tp.__name__
        _old_hook(tp, val, tb)

    sys.excepthook = _excepthook

    # norminette is imported by `-m norminette` after site initialisation; wrap lazily
    import importlib.abc
    import importlib.machinery

    class _Hook(importlib.abc.MetaPathFinder):
        def find_spec(self, name, path=None, target=None):
            if name == "norminette.__main__" and not _hooked[0]:
                _hooked[0] = True
                try:
                    _install()
                except Exception as e:      # never break the tool
                    _trace["install_error"] = repr(e)
            return None

    sys.meta_path.insert(0, _Hook())
