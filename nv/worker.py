"""worker process: python -m nv.worker CNN spec.json out.json"""
import faulthandler
import json
import sys


def main():
    pid, specf, outf = sys.argv[1:4]
    faulthandler.enable()
    with open(specf) as f:
        spec = json.load(f)
    from nv import core, run
    core.assert_repo()
    mod = run.load_check(pid)
    if "replay" in spec:
        sh = run.Shard(max_per_sig=50)
        mod.replay(spec["replay"], sh)
        res = sh.result()
    else:
        res = mod.run_shard(spec)
    from nv import mon
    if mon.MONITOR_ERRORS:
        # a monitor could not observe the tool (an attribute it relies on is gone): nothing this worker saw is believed
        res["inconclusive"] = list(res.get("inconclusive", [])) + ["monitor blind: " + m for m in mon.MONITOR_ERRORS[:5]]
        res["violations"] = []
        res["sig_totals"] = {}
    with open(outf + ".tmp", "w") as f:
        json.dump(res, f, default=str)
    import os
    os.replace(outf + ".tmp", outf)


if __name__ == "__main__":
    main()
