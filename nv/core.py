"""Monitored executions of the real pipeline (DESIGN §4 'API run')."""
import contextlib
import io
import os
import sys

import norminette
from norminette.file import File
from norminette.lexer import Lexer
from norminette.context import Context
from norminette.registry import Registry
from norminette.exceptions import CParsingError

from nv import mon

REPO = os.environ.get("NV_REPO", "/repo")


def assert_repo():
    p = os.path.realpath(norminette.__file__)
    if not p.startswith(os.path.realpath(REPO) + "/"):
        raise SystemExit("INCONCLUSIVE reason=norminette imported from %s, not from %s" % (p, REPO))


_registry = [None]


def registry():
    if _registry[0] is None:
        _registry[0] = Registry()
    return _registry[0]


class Run:
    __slots__ = ("name", "src", "outcome", "detail", "sess", "steps", "stdout", "status", "diags")

    def obs(self):
        """(status, sorted [(code, level, line, col)]) or the non-verdict outcome"""
        if self.outcome != "ok":
            return (self.outcome, self.detail if self.outcome != "fatal" else None)
        return (self.status, sorted(self.diags))

    def errors(self):
        return [d for d in self.diags if d[1] == "Error"]

    def codes_on(self, line):
        return [d[0] for d in self.diags if d[2] == line]


def api_run(name, src, debug=0, added=None, budget=None, want_tokens=False, keep_limit=False,
            lex_only=False, clock=True):
    """Lexer -> Context -> shared Registry.run on (name, src) under M-LEX,
    M-DIAG, M-SEG and (clock=True) M-STEP."""
    mon.install()
    r = Run()
    r.name, r.src = name, src
    sess = mon.Session(src, want_tokens=want_tokens)
    r.sess = sess
    r.steps = 0
    r.status = None
    r.diags = []
    f = File(name, src)
    out = io.StringIO()
    b = budget if budget is not None else mon.budget1(len(src))
    reg = registry()
    mon.CUR[0] = sess
    if clock:
        mon.CLOCK.start(b)
    try:
        with contextlib.redirect_stdout(out):
            tokens = list(Lexer(f))
            if not lex_only:
                ctx = Context(f, tokens, debug, added)
                reg.run(ctx)
        r.outcome, r.detail = "ok", None
    except CParsingError as e:
        r.outcome, r.detail = "fatal", str(e)
    except mon.StepBudgetExceeded as e:
        r.outcome, r.detail = "hang", mon.signature(e)[1:]
    except RecursionError as e:
        r.outcome, r.detail = "crash", mon.signature(e)
    except Exception as e:
        r.outcome, r.detail = "crash", mon.signature(e)
    finally:
        if clock:
            r.steps = mon.CLOCK.stop()
        mon.CUR[0] = None
        if not keep_limit:
            sys.setrecursionlimit(1000)
    r.stdout = out.getvalue()
    if r.outcome == "ok":
        try:
            r.status = f.errors.status
            r.diags = [(e.name, e.level, e.highlights[0].lineno if e.highlights else None,
                        e.highlights[0].column if e.highlights else None) for e in mon.errors_list(f.errors)]
        except Exception as e:
            mon.note_blind("core.api_run.diags", e)
    return r


def run_confirm(name, src, **kw):
    """two-stage step budget: a case exceeding B1 is re-run alone under B"""
    r = api_run(name, src, **kw)
    if r.outcome == "hang":
        r2 = api_run(name, src, budget=mon.budget_full(len(src)), **kw)
        return r2
    return r
