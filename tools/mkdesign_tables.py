#!/usr/bin/env python3
"""Rewrites the two findings tables of DESIGN.md §5 from known_findings.json."""
import json
import os
import re

ROOT = os.path.dirname(os.path.dirname(os.path.abspath(__file__)))


def main():
    d = json.load(open(os.path.join(ROOT, "known_findings.json")))
    s = open(os.path.join(ROOT, "DESIGN.md")).read()
    fixed = "\n".join("| %s | %s | %s | %s |" % (e["id"], ",".join(e["properties"]), e["commit"], e["what"].replace("|", "\\|"))
                      for e in d["findings"] if e["status"] == "fixed")
    known = "\n".join("| %s | %s | %s | `%s` %s |" % (
        e["id"], ",".join(e["properties"]), e["what"].replace("|", "\\|"), e["mechanism"]["predicate"],
        json.dumps(e["mechanism"].get("params", {}).get("fields", e["mechanism"].get("params", {})))[:150].replace("|", "\\|"))
        for e in d["findings"] if e["status"] == "known")
    h1 = "| id | prop | commit | what failed |\n|---|---|---|---|\n"
    h2 = "| id | prop | what fails | predicate over the failing case |\n|---|---|---|---|\n"
    for head, body in ((h1, fixed), (h2, known)):
        i = s.index(head) + len(head)
        j = s.index("\n\n", i)
        s = s[:i] + body + s[j:]
    nf = sum(1 for e in d["findings"] if e["status"] == "fixed")
    nk = sum(1 for e in d["findings"] if e["status"] == "known")
    s = re.sub(r"\d+ defects of the pinned tree were repaired\nby `fix:` commits in /repo, \d+ are recorded",
               "%d defects of the pinned tree were repaired\nby `fix:` commits in /repo, %d are recorded" % (nf, nk), s)
    open(os.path.join(ROOT, "DESIGN.md"), "w").write(s)
    print("fixed", nf, "known", nk)


if __name__ == "__main__":
    main()
