#!/usr/bin/env python3
"""tools/seedstore.py <src-dir> <id> <round> <needs> <result>: keep a confirmed seeded change under seeded/<id>/"""
import json
import os
import shutil
import sys

src, sid, rnd, needs, result = sys.argv[1:6]
root = os.path.join(os.path.dirname(os.path.dirname(os.path.abspath(__file__))), "seeded", sid)
os.makedirs(root, exist_ok=True)
for f in ("patch.diff", "demo.py", "notes.md"):
    if os.path.exists(os.path.join(src, f)):
        shutil.copy(os.path.join(src, f), os.path.join(root, f))
prop = sid.split("-")[0]
origins = {"4": "independent sub-agent given only the property text and a scratch worktree; told the harness already covers rare characters, option combinations, several files per process and limits - asked for environment, scale, interaction and N-th-occurrence triggers (round 4)", "3": "independent sub-agent given only the property text and a scratch worktree; asked for triggers in rarely "
                "exercised territory (adversarial round)"}
json.dump({"id": sid, "property": prop, "round": int(rnd), "origin": origins.get(rnd, "independent sub-agent"),
           "needs_to_manifest": needs,
           "confirmed": "tools/seedverify.py: 514 tests pass with the patch; demo.py exits non-zero with it and 0 without",
           "checked_with": "tools/seedrun.py --isolated seeded/%s/patch.diff %s" % (sid, prop),
           "result": result}, open(os.path.join(root, "meta.json"), "w"), indent=1)
with open(os.path.join(os.path.dirname(root), "README.md"), "a") as f:
    f.write("| %s | %s | %s | %s |\n" % (sid, prop, needs, result))
print("stored", root)
