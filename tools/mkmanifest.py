#!/usr/bin/env python3
"""Regenerates MANIFEST.json from the table below (registered checks only)."""
import json
import os

ROOT = os.path.dirname(os.path.dirname(os.path.abspath(__file__)))

CHECKS = {
    "C01": dict(
        technique="runtime monitors on diagnostics and segmentation (M-DIAG, M-SEG, M-CLI) over grammar-generated conforming files",
        text="Files generated from the conforming-program grammar (random + deterministic cycling of constant shapes and "
             "operator/operand/context combinations, hostile identifiers) are run through the real lexer, rules and "
             "command line under monitors: no Error-level diagnostic may be emitted, nothing may be left unrecognised, "
             "the status must be OK and the CLI must print `<name>: OK!` and exit 0. A failing case is reported with the "
             "diagnostic, its emitter and the IR tokens around the highlight.",
        note="The conformance of the generated files rests on the grammar of DESIGN §4.1 (a sub-language of Norm-conforming "
             "C); recorded false positives are matched by structural predicates (known_findings.json).",
        design="§3.2, §4.1"),
    "C02": dict(
        technique="runtime monitor on emitted diagnostics (M-DIAG) over a catalogue of one-violation edit operators applied to accepted programs",
        text="77 edit operators, each tied to a diagnostic code and a Norm sentence, are applied at IR-known sites of "
             "generated programs the tool accepts; the monitored run must emit that code on the edited line, set status "
             "Error, and the CLI must print Error! and exit non-zero. Per-operator applied/detected counts are in evidence.",
        note="Operator preconditions are evaluated on the generator's IR, not with the tool's lexer. Sites where the tool "
             "has no designated code are outside the catalogue (DESIGN §4.2); context-dependent misses are recorded by "
             "mechanism in known_findings.json.",
        design="§4.2"),
    "C06": dict(
        technique="relational runtime check over histories in one process against fresh-process references + M-STATE snapshots + permuted rule listing in subprocesses",
        text="Each target file's observation alone in a fresh interpreter is the reference; the same file is then analysed "
             "in a process that shares the Registry after itself, after each predecessor class (clean, erroneous, fatal, "
             "other type, amplifier files that make leaked interpreter/registry state observable), after random histories "
             "and interleaved: every observation must equal the reference. Subprocesses with the rules directory listing "
             "permuted before import must yield the same rule order, dependency lists and observations.",
        note="M-STATE differences (recursion limit, rule order, module-level containers) are reported, never a verdict on "
             "their own. The harness keeps the interpreter's recursion limit as the tool leaves it.",
        design="§3.1 M-STATE, §4.6"),
    "C07": dict(
        technique="runtime monitor on the registry's segmentation (M-SEG: Registry.run / run_rules / Context.pop_tokens wrappers)",
        text="On every monitored run (conforming files, variants, fragment insertions): each matched statement claims >= 1 "
             "token, the registry pops exactly what the matching rule claimed and nothing else pops, the statements tile "
             "the token list, an unrecognised token always ends in the fatal diagnostic (API: CParsingError; CLI: fatal "
             "form, exit 1, no stray output). On conforming files: statements start in column 1, end with NEWLINE, their "
             "number equals the IR line count known by construction, and the scope is GlobalScope after each function.",
        note="Fragments absorbed by a Primary rule say nothing about C07 and are only counted. One statement per IR line "
             "is a property of the generator.",
        design="§3.1 M-SEG, §4.7"),
    "C08": dict(
        technique="runtime monitor on Errors.add (M-DIAG) + formatter comparison through strict report parsers + exhaustive comparator-law check",
        text="Every diagnostic emitted in the workloads is asserted at emission time (catalogue code and text, level, >= 1 "
             "highlight, 1 <= line <= nlines, column >= 1); both formatters are run in-process and through the CLI on "
             "lists of 1-5 files and their parsed reports must describe the same files, verdicts and diagnostics in the "
             "same ascending order, equal to what the rules emitted; Error.__lt__ is checked to be a strict weak order "
             "consistent with the printed position on all pairs/triples of a 1026-value domain.",
        note="Trusts the two report parsers in nv/oracle.py; highlight-less Errors are outside the domain.",
        design="§3.1 M-DIAG, §4.8"),
    "C09": dict(
        technique="runtime monitor on the lexer cursor (M-LEX) compared with an independent position scanner",
        text="Every token produced by the real lexer on an exhaustively enumerated small-string space, on seeded lexeme "
             "soups and on generated programs is checked online: its (line, column) must equal the position recomputed "
             "from the raw text at the raw offset where the lexer committed to it; BAD_LEXEME diagnostics and rule "
             "diagnostics are checked the same way. Held = held on the executions listed in the evidence file.",
        note="Trusts refpos (12 lines), CPython attribute patching of Lexer.get_next_token/line_pos, and that the lexer "
             "calls line_pos() when it commits to a token start. Nothing is claimed for inputs outside the workload.",
        design="§3.1 M-LEX, §4.9"),
    "C10": dict(
        technique="runtime monitor on the lexer cursor (M-LEX): span tiling + text round trip against a reference normaliser",
        text="For every token of every monitored lexer run the raw span it consumed is recorded; spans must be non-empty, "
             "ordered and gap-free (gaps may only hold line splices and characters reported as BAD_LEXEME), the input "
             "must be consumed to its end, and the token text must equal the normalised raw span. Exhaustive over all "
             "strings up to the tier's bound on a 17-symbol alphabet, sampled beyond.",
        note="Trusts the reference normaliser (splices, trigraphs, digraphs, tab expansion in block comments) and the "
             "cursor observation. Lexer runs that end in an exception are counted, not judged here (C05 does).",
        design="§3.1 M-LEX, §4.10"),
    "C03": dict(
        technique="runtime monitor on emitted diagnostics (M-DIAG) over files constructed to measure exactly n for each limit",
        text="For each limit L (80 columns, 25 body lines, 5 functions, 4 parameters, 5 variables) and each n in [L-3, L+6] "
             "files are constructed whose measured quantity is exactly n (asserted with an independent width function) in "
             "every generated context (24 kinds of line - some spelt with digraphs and trigraphs -, leading tabs, position in file, final newline; nested bodies "
             "with neighbour functions; pointer/array/function-pointer declarators). The monitored run must emit the "
             "limit's code on the measured line/function iff n > L.",
        note="Trusts vis_width and the construction; other codes and duplicates are ignored as the property allows.",
        design="§4.3"),
    "C04": dict(
        technique="process-boundary monitor (M-CLI): in-child trace of emitted diagnostics vs printed verdict lines vs exit status",
        text="All 341 sequences of length 0..4 over the file classes {clean, notice-only, erroneous, fatal} are run through "
             "the real command line as explicit paths (also with a path repeated) and as a directory. Three views must "
             "agree: what the rules emitted inside the child (recorded by sitecustomize), the verdict lines parsed from "
             "stdout, and the exit status: one verdict line per file, OK iff no Error-level diagnostic, status 0 iff all "
             "OK, a fatal file named with non-zero status, never a traceback (also for the empty selection).",
        note="Classes of representative files are established by an in-process run first; directory mode compares multisets.",
        design="§3.1 M-CLI, §4.4"),
    "C05": dict(
        technique="sys.monitoring step clock (termination as bounded logical progress) + exception observation at the "
                  "lexer, registry and process boundaries",
        text="Real lexer / pipeline / command line are run on an exhaustively enumerated small-string space, lexeme "
             "soups, very long runs of unmatched lexemes, generated complete files, all-or-sampled token prefixes and "
             "bounded token edits of them, files assembled from declaration-shaped pieces, nesting 50-1500 levels deep in nine shapes, "
             "a directive x argument grid (names also taken from the rule class), hostile byte contents on disk and command-line "
             "runs with pseudo-terminals on the standard streams. A logical clock (function entries + loop "
             "back-edges inside norminette) decides termination against a calibrated budget; any exception other than "
             "the controlled fatal parse error, any traceback or exit status outside {0,1} is a violation.",
        note="Budget B(n)=2e6+15000n steps (>=60x the calibrated maximum, calibration re-measured each run); wall clock "
             "never decides (the deep-nesting family, where the tool is cubic in the depth, gets a budget quadratic in the depth; an "
             "overrun there is inconclusive). Damaged-input crash sites have a long tail: only the sites reached by this workload are judged.",
        design="§3.1 M-STEP, §4.5"),
    "C11": dict(
        technique="runtime monitors on the lexer (M-LEX token spans, M-DIAG lexical diagnostics) against a reference grammar of C constants",
        text="Valid constants generated from the C11 6.4.4 grammar (+ the extensions the property names) - exhaustive for "
             "digit strings up to the tier's bound x all suffix spellings, every escape form, 5 prefixes - are lexed alone "
             "and in 7 left/right contexts: exactly one token of the right kind must span the spelling and no diagnostic "
             "may be emitted; every member of the malformed families must get its required code.",
        note="The reference grammar (nv/gen/literals.py) is written from the standard; a glued sign after the literal is "
             "excluded because C itself munches it after e/E/p/P.",
        design="§4.11"),
    "C12": dict(
        technique="relational runtime check: token sequences recorded by the lexer monitor (M-LEX) on a text and its respelt / spliced twin",
        text="On generated programs, random subsets of punctuator occurrences (IR-known) are respelt as digraphs/trigraphs "
             "and random subsets of token boundaries receive backslash-newline or ??/-newline; the (type, value) "
             "sequences recorded from the real lexer must be equal. Braces/brackets are also respelt through the whole "
             "pipeline and the observations compared modulo column. Every operator spelling with trigraph/digraph parts "
             "is enumerated and must lex to the same single token (longest match).",
        note="Respellings next to < > % : ? = are skipped (C itself would form another token there); splices are not put "
             "after // comments or between two identifier-like tokens.",
        design="§4.12"),
    "C13": dict(
        technique="runtime monitor counting INVALID_HEADER events over stdheader template instances and their structural mutants",
        text="The stdheader template is re-implemented independently and instantiated with random logins, mail domains, "
             "file names (1-60 chars, truncated as the plugin does) and time stamps in front of generated conforming "
             "bodies: the monitored run must emit INVALID_HEADER 0 times; each of 27 single structural mutations must "
             "produce it exactly once.",
        note="Trusts the re-implemented template (oracle.header42_lines).",
        design="§4.13"),
    "C14": dict(
        technique="runtime monitor on HEADER_PROT_* events over generated headers, guard mutations and .c twins",
        text="Generated conforming headers under random base names over [a-z_][a-z0-9_.]* carry the correct guard or one "
             "of 8 guard mutations; the set of HEADER_PROT_* codes emitted by the monitored run must contain the expected "
             "one, be empty for the correct guard, and be empty for the same text under a .c name.",
        note="A leading digit in the base name is excluded (the guard would not be an identifier).",
        design="§4.14"),
    "C15": dict(
        technique="process-boundary monitor: audit hook on open() inside the child (M-IO) + verdict lines + exit status against an independent tree walk",
        text="Random directory trees with hostile names (spaces, dots, glob metacharacters, look-alike suffixes, "
             "directories named like sources, empty directories) and argument lists of files, directories, repeated "
             "items, missing paths and non-C files, with no argument, and with --use-gitignore in a git tree: the sources "
             "opened by the child (audit events) and the verdict lines must equal, as multisets per mention, the regular "
             "*.c/*.h files found by an independent os.walk; non-C files must be rejected with a message and not opened; "
             "a missing path must abort with non-zero status.",
        note="Expected ignored set comes from `git ls-files -z -oi --exclude-standard`; the names `.c`/`.h` are not generated.",
        design="§3.1 M-IO, §4.15"),
    "C16": dict(
        technique="process-boundary monitor: per-file observation recorded inside the child (Errors objects + M-DIAG emitters) compared across option sets",
        text="For generated files, a pairwise covering array over {--no-colors, -f, -o, -d/-dd, -R word} (full product on "
             "some files) is run through the real command line; the status and diagnostics recorded inside the child "
             "must be identical to the option-free run for every file that reaches a verdict; under -R CheckDefine the "
             "difference must be exactly the events emitted by CheckPreprocessorDefine; inline --cfile/--hfile content "
             "(with/without --filename) must equal the on-disk twin and open no source file; printed reports are parsed "
             "and compared when no debug output is mixed in.",
        note="Pairs where a debug level turns a fatal error into extra output are skipped and counted.",
        design="§4.16"),
    "C17": dict(
        technique="relational runtime check: observations (M-DIAG) of paired executions on a file and its literal/comment-replaced twin",
        text="For generated conforming and violating files, the body of random subsets of comment, string and character "
             "segments (sites known from the generator's IR) is replaced by code-like text of the same displayed width; "
             "both files are run under the monitors and the complete observations (status, every diagnostic's code, "
             "level, line, column) must be identical.",
        note="Replacement alphabet excludes the delimiter of its own kind, backslash, newline, `*/` and `??`; the 42 header "
             "and #include paths are never touched.",
        design="§4.17"),
    "C18": dict(
        technique="relational runtime check: observations of paired executions on a file and its consistently renamed twin",
        text="All user identifiers of generated files (occurrences known from the IR) are consistently renamed to names of "
             "the same length, prefix class and letter case, half of them drawn from a hostile vocabulary (libc names, "
             "keywords of newer C/C++, keyword prefixes); the observations of both monitored runs must be identical in "
             "code, level, line and column.",
        note="Never renames to a keyword of the tool's table or to environ/defined/__attribute__/main; the include guard, "
             "directive names and include paths keep their spelling.",
        design="§4.18"),
    "C19": dict(
        technique="relational runtime check: observations of paired executions under header prepending, comment insertion and function appending",
        text="On headerless generated files (conforming and violating, short files with early violation sites included): "
             "prepending the 42 header must remove exactly one INVALID_HEADER and shift everything else by 12 lines; a "
             "comment line inserted at every IR-known top-level insertion point must shift later diagnostics by one and "
             "leave earlier ones untouched; an appended conforming function must change nothing.",
        note="Insertion points are IR items preceded by an empty line; files whose violation is anchored at the end of the "
             "file are excluded from the append relation.",
        design="§4.19"),
}

NOT_YET = "check under construction in this round; not yet registered"


def main():
    props = [json.loads(l)["id"] for l in open(os.path.join(ROOT, "properties.jsonl"))]
    checks = []
    for pid in props:
        if pid not in CHECKS:
            continue
        c = CHECKS[pid]
        checks.append({
            "property_id": pid,
            "quick_cmd": "./vcheck %s --tier quick" % pid,
            "thorough_cmd": "./vcheck %s --tier thorough" % pid,
            "evidence_file": "evidence/%s.json" % pid,
            "replay_cmd_template": "./vcheck %s --replay {path}" % pid,
            "engine": "nv",
            "level_claimed": {"category": "exploration", "text": c["text"], "design_ref": c["design"]},
            "level_note": c["note"],
            "technique": c["technique"],
        })
    m = {
        "version": 1,
        "setup_cmd": "true",
        "hooks": {
            "guard": "NORMINETTE_VERIF",
            "enable": "export NORMINETTE_VERIF=1 before importing norminette (./vcheck and every worker / CLI child do): "
                      "Lexer._verif_cursor() and Errors._verif_items() are then defined; the monitors (nv/mon.py) wrap public "
                      "class attributes from the harness and use the two hooks instead of private attribute names; CLI children "
                      "are instrumented through nv/site/sitecustomize.py on PYTHONPATH when NV_TRACE is set",
            "baseline_off_cmd": "cd /repo && /venv/bin/python -m pytest -q -p no:cacheprovider",
            "source_commits": ["a0299b1"],
            "add_only": True,
        },
        "engines": [{"name": "nv", "path": "nv/", "serves_properties": [c["property_id"] for c in checks],
                     "kind_free_text": "runtime monitors (attribute wrappers, sys.monitoring step clock, audit hooks) + "
                                       "workload generators + offline checkers over recorded events"}],
        "checks": checks,
        "not_applicable": [{"property_id": p, "reason": NOT_YET} for p in props if p not in CHECKS],
        "notes": "All checks: ./vcheck CNN --tier quick|thorough; VERIF_SEED selects the random workload. Exit 0 held, "
                 "1 violation (VIOLATION line + replay file under out/replay/), 2 inconclusive (monitor not reached / "
                 "watchdog).",
    }
    with open(os.path.join(ROOT, "MANIFEST.json"), "w") as f:
        json.dump(m, f, indent=1)
        f.write("\n")


if __name__ == "__main__":
    main()
