#!/usr/bin/env python3
"""Apply a seeded change to /repo, run the quick tier of the given checks, undo the change.
usage: tools/seedrun.py [--isolated] <patch.diff> CNN [CNN...]   (prints one line per check: caught / missed)
--isolated applies the patch in a scratch worktree and points the harness at it with NV_REPO instead of touching /repo"""
import os
import subprocess
import sys

ROOT = os.path.dirname(os.path.dirname(os.path.abspath(__file__)))
REPO = "/repo"


def isolated(patch, checks, tier):
    """same thing in a scratch worktree (NV_REPO points the harness at it): /repo stays untouched, so background
    sweeps that use /repo are not disturbed"""
    wt = "/tmp/wt_seedrun_%d" % os.getpid()
    head = subprocess.run(["git", "-C", REPO, "rev-parse", os.environ.get("SEED_BASE", "HEAD")], capture_output=True,
                          text=True).stdout.strip()
    subprocess.run(["git", "-C", REPO, "worktree", "add", "-q", "--detach", wt, head], check=True)
    try:
        a = subprocess.run(["git", "-C", wt, "apply", patch])
        if a.returncode:
            a = subprocess.run(["git", "-C", wt, "apply", "--3way", patch])
        if a.returncode:
            print("PATCH DOES NOT APPLY to %s" % head)
            return
        env = dict(os.environ, NV_REPO=wt)
        t = subprocess.run(["/venv/bin/python", "-m", "pytest", "-q", "-p", "no:cacheprovider", "-x"], cwd=wt,
                           env=dict(env, PYTHONPATH=wt), capture_output=True, text=True)
        print("tests with the change: %s" % (t.stdout.strip().split("\n")[-1]))
        for c in checks:
            p = subprocess.run([os.path.join(ROOT, "vcheck"), c, "--tier", tier], cwd=ROOT, env=env, capture_output=True, text=True)
            viol = [l for l in p.stdout.split("\n") if l.startswith("VIOLATION")]
            arrows = [l for l in p.stdout.split("\n") if l.startswith("  -> ")]
            print("%s exit=%d violations=%d %s" % (c, p.returncode, len(viol), "CAUGHT" if p.returncode == 1 else
                                                   ("INCONCLUSIVE" if p.returncode == 2 else "missed")))
            for a in arrows[:3]:
                print("     " + a[:300])
            if p.returncode not in (0, 1):
                print(p.stdout[-600:], p.stderr[-600:])
    finally:
        subprocess.run(["git", "-C", REPO, "worktree", "remove", "--force", wt])


def main():
    if sys.argv[1] == "--isolated":
        return isolated(os.path.abspath(sys.argv[2]), sys.argv[3:], os.environ.get("SEED_TIER", "quick"))
    patch = os.path.abspath(sys.argv[1])
    checks = sys.argv[2:]
    tier = os.environ.get("SEED_TIER", "quick")
    st = subprocess.run(["git", "-C", REPO, "status", "--porcelain"], capture_output=True, text=True).stdout.strip()
    if st:
        sys.exit("refusing: /repo working tree is not clean:\n" + st)
    subprocess.run(["git", "-C", REPO, "apply", patch], check=True)
    results = {}
    try:
        t = subprocess.run(["/venv/bin/python", "-m", "pytest", "-q", "-p", "no:cacheprovider", "-x"], cwd=REPO,
                           capture_output=True, text=True)
        tests_ok = "514 passed" in t.stdout
        print("tests with the change: %s" % (t.stdout.strip().split("\n")[-1]))
        for c in checks:
            p = subprocess.run([os.path.join(ROOT, "vcheck"), c, "--tier", tier], cwd=ROOT, capture_output=True, text=True)
            viol = [l for l in p.stdout.split("\n") if l.startswith("VIOLATION")]
            arrows = [l for l in p.stdout.split("\n") if l.startswith("  -> ")]
            results[c] = (p.returncode, len(viol))
            print("%s exit=%d violations=%d %s" % (c, p.returncode, len(viol), "CAUGHT" if p.returncode == 1 else
                                                   ("INCONCLUSIVE" if p.returncode == 2 else "missed")))
            for a in arrows[:3]:
                print("     " + a[:300])
            if p.returncode not in (0, 1):
                print(p.stdout[-600:], p.stderr[-600:])
    finally:
        subprocess.run(["git", "-C", REPO, "checkout", "--", "."], check=True)
        subprocess.run(["git", "-C", REPO, "status", "--porcelain"], check=True)
    return 0


if __name__ == "__main__":
    main()
