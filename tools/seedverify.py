#!/usr/bin/env python3
"""Confirm a seeded change in a scratch worktree: tests pass with it, its demo fails with it and passes without.
usage: tools/seedverify.py <seed dir with patch.diff + demo.py>"""
import os
import subprocess
import sys

WT = "/tmp/wt_verify"


def sh(cmd, **kw):
    return subprocess.run(cmd, capture_output=True, text=True, **kw)


def main():
    d = os.path.abspath(sys.argv[1])
    head = sh(["git", "-C", "/repo", "rev-parse", "HEAD"]).stdout.strip()
    if not os.path.exists(WT):
        sh(["git", "-C", "/repo", "worktree", "add", "-q", "--detach", WT, head])
    sh(["git", "-C", WT, "checkout", "-q", "--detach", head])
    sh(["git", "-C", WT, "checkout", "--", "."])
    env = dict(os.environ, PYTHONPATH=WT, PYTHONDONTWRITEBYTECODE="1")
    demo = os.path.join(d, "demo.py")
    r0 = sh(["/venv/bin/python", demo], env=env, cwd=WT, timeout=900)
    a = sh(["git", "-C", WT, "apply", os.path.join(d, "patch.diff")])
    if a.returncode:
        print("PATCH DOES NOT APPLY", a.stderr[:300])
        return 1
    try:
        t = sh(["/venv/bin/python", "-m", "pytest", "-q", "-p", "no:cacheprovider"], env=env, cwd=WT)
        r1 = sh(["/venv/bin/python", demo], env=env, cwd=WT, timeout=900)
    finally:
        sh(["git", "-C", WT, "checkout", "--", "."])
    tests = t.stdout.strip().split("\n")[-1]
    ok = "514 passed" in tests and r0.returncode == 0 and r1.returncode != 0
    print("%s: tests[%s] demo_without=%d demo_with=%d -> %s" % (os.path.relpath(d, "/tmp"), tests, r0.returncode, r1.returncode,
                                                               "CONFIRMED" if ok else "REJECTED"))
    if not ok:
        print(r0.stdout[-300:], r0.stderr[-300:], r1.stdout[-300:], r1.stderr[-300:])
    return 0 if ok else 1


if __name__ == "__main__":
    sys.exit(main())
