#!/bin/bash
# tools/refacrun.sh <area dir, e.g. /tmp/refac4_R1> <check ids...>: every patch k/patch.diff of the area in a scratch
# worktree (NV_REPO), the given checks' quick tier against it; one line per (patch, check)
area=$1; shift
for k in 1 2 3 4; do
  p=$area/$k/patch.diff
  [ -f "$p" ] || { echo "$area/$k: no patch"; continue; }
  wt=/tmp/wt_refac_$$_$k
  git -C /repo worktree add -q --detach $wt HEAD || continue
  if ! git -C $wt apply $p 2>/dev/null && ! git -C $wt apply --3way $p 2>/dev/null; then
    echo "$area/$k: PATCH DOES NOT APPLY"; git -C /repo worktree remove --force $wt; continue
  fi
  t=$(cd $wt && PYTHONPATH=$wt /venv/bin/python -m pytest -q -p no:cacheprovider 2>&1 | tail -1)
  echo "$area/$k: tests: $t"
  for c in "$@"; do
    out=$(cd /verif && NV_REPO=$wt ./vcheck $c --tier quick 2>&1)
    rc=$?
    echo "$area/$k $c rc=$rc $(echo "$out" | grep -c '^VIOLATION') violations $(echo "$out" | grep '^INCONCLUSIVE' | head -1 | cut -c1-120)"
    if [ $rc -ne 0 ]; then echo "$out" | grep "^  ->" | head -3 | cut -c1-300; fi
  done
  git -C /repo worktree remove --force $wt
done
